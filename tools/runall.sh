#!/bin/bash
# usage: runall.sh <quick|thorough> [IDs...]  -- one summary line per check
T=${1:-quick}; shift
IDS=${@:-C01 C02 C03 C04 C05 C06 C07 C08 C09 C10 C11 C12 C13 C14 C15 C16 C17 C18 C19 C20}
cd "$(dirname "$(readlink -f "$0")")/.."
for p in $IDS; do
  s=$(date +%s)
  ./check $p --tier $T > /tmp/runall_$p.log 2>&1; rc=$?
  e=$(date +%s)
  echo "$p tier=$T rc=$rc wall=$((e-s))s $(grep -c '^VIOLATION' /tmp/runall_$p.log) violations, $(grep -c '^KNOWN-FINDING' /tmp/runall_$p.log) known; $(grep -E '^OK|^FAIL|^HARNESS' /tmp/runall_$p.log | cut -c1-160)"
done
