#!/venv/bin/python
"""Anchor-coverage audit (an editing aid, not a check): run the quick tier of
each property under coverage.py and report, per anchored source file of the
property, the fraction of statements the check executed and the functions it
never entered.  A file that a property is anchored in but that the check
does not reach is a blind spot whatever the oracle.

usage: tools/anchorcov.py [C01 C02 ...]   (default: all)
"""
import ast
import json
import os
import pathlib
import shutil
import subprocess
import sys

import coverage

VERIF = pathlib.Path("/verif")
REPO = pathlib.Path(os.environ.get("VERIF_REPO", "/repo"))
props = {}
for line in open(VERIF / "properties.jsonl"):
    p = json.loads(line)
    props[p["id"]] = p
want = sys.argv[1:] or sorted(props)
work = pathlib.Path("/dev/shm/anchorcov")
report = {}
for pid in want:
    d = work / pid
    shutil.rmtree(d, ignore_errors=True)
    d.mkdir(parents=True)
    rc = d / "coveragerc"
    rc.write_text(f"[run]\nparallel = True\ndata_file = {d}/cov\n"
                  f"source = {REPO}/dclab\n")
    env = dict(os.environ, VERIF_COV="1", COVERAGE_CORE="sysmon",
               PYTHONHASHSEED="0", HDF5_USE_FILE_LOCKING="FALSE",
               VERIF_EVIDENCE_DIR=str(d / "evidence"),
               OMP_NUM_THREADS="1")
    p = subprocess.run(["/venv/bin/python", "-m", "coverage", "run",
                        f"--rcfile={rc}", "-m", "vf.runner", pid, "--tier",
                        "quick"], cwd=VERIF, env=env,
                       stdout=subprocess.PIPE, stderr=subprocess.STDOUT,
                       text=True)
    cov = coverage.Coverage(config_file=str(rc))
    cov.combine(data_paths=[str(d)])
    data = cov.get_data()
    report[pid] = {}
    print(f"== {pid} (check exit {p.returncode})")
    for f in props[pid]["anchors"]["files"]:
        path = REPO / f
        if path.suffix != ".py":
            continue
        lines = set(data.lines(str(path)) or [])
        tree = ast.parse(path.read_text())
        never = []
        nstmt = nhit = 0
        for node in ast.walk(tree):
            if isinstance(node, (ast.FunctionDef, ast.AsyncFunctionDef)):
                body = [n.lineno for n in ast.walk(node)
                        if isinstance(n, ast.stmt) and n is not node
                        and not (isinstance(n, ast.Expr) and isinstance(
                            getattr(n, "value", None), ast.Constant))]
                if body and not (lines & set(body)):
                    never.append(node.name)
        stm = {n.lineno for n in ast.walk(tree) if isinstance(n, ast.stmt)}
        nstmt, nhit = len(stm), len(stm & lines)
        report[pid][f] = {"statements": nstmt, "executed": nhit,
                          "never_entered": never}
        print(f"  {f}: {nhit}/{nstmt} statements; never entered: "
              f"{', '.join(never) or '-'}")
    shutil.rmtree(d, ignore_errors=True)
(VERIF / ".build").mkdir(exist_ok=True)
(VERIF / ".build" / "anchorcov.json").write_text(json.dumps(report, indent=1))
