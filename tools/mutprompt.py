#!/venv/bin/python
"""Print the prompt for a mutation sub-agent (property text only)."""
import json
import sys
pid = sys.argv[1]
wt = sys.argv[2]
out = sys.argv[3]
extra = sys.argv[4] if len(sys.argv) > 4 else ""
for l in open("/verif/properties.jsonl"):
    p = json.loads(l)
    if p["id"] == pid:
        break
print(f"""You are helping to evaluate a verification effort for the Python library dclab (DC-analysis/dclab; reads, writes, filters and analyses real-time deformability cytometry data).

You have your own scratch git worktree of the repository at {wt} (a detached checkout; the compiled extension modules and dclab/_version.py are already in place). Work ONLY inside {wt} and write your results to {out}/ (create it). Do not read or modify /repo or /verif, and do not look for any verification tooling: your work must be independent of it.

Property "{p['title']}":
{p['statement']}
It is meant to hold {p['quantifier']['text']}.
Code that implements it: {', '.join(p['anchors']['files'])}.

Task: make ONE small, realistic change to the library source (under {wt}/dclab, Python files only; .pyx files cannot be recompiled here) that BREAKS this property, such that
 (1) the package still imports and the existing test-suite still passes completely unchanged (no test may be edited), and
 (2) the breakage needs something specific to manifest: a particular multi-step sequence of operations, an unusual input or size (e.g. crossing a chunk boundary), a particular combination of settings, or two cooperating code sites that each look fine alone. It must NOT be something ordinary single-call usage would expose at once, and it must look like a plausible programming slip or an over-eager optimisation/refactoring, not sabotage (no checks for magic values, no randomness, no environment/time dependence).
{extra}
How to run things (always from inside the worktree so that the worktree's dclab is imported; verify with `python -c "import dclab; print(dclab.__file__)"`):
  cd {wt} && /venv/bin/python -m pytest -q -p no:cacheprovider -n 6 tests/   (about 3-4 minutes; a number of tests fail already on the UNCHANGED tree because of an untagged version string - record the set of failing tests before your change, e.g. with `--junitxml`, and make sure that exactly the same tests pass after your change)
  Note: files written by this build are branded with version "0.0.post1+..." and dclab then refuses to re-open them (OldFormatNotSupportedError). If your demonstration needs to write and re-open .rtdc files, put this at the very top of the script, before importing dclab:
      import sys, types; m = types.ModuleType("dclab._version"); m.version = m.__version__ = "0.62.7"; m.version_tuple = m.__version_tuple__ = (0, 62, 7); sys.modules["dclab._version"] = m

Deliverables in {out}/:
  patch.diff  - `git -C {wt} diff` of your change (source only)
  demo.py     - a small stand-alone program (run as `cd <checkout> && /venv/bin/python {out}/demo.py`) that exits 0 and prints PASS on the unchanged code and exits 1 and prints FAIL with your change applied; it must demonstrate the violation of the property as stated above through public API only
  meta.json   - {{"property": "{pid}", "summary": "...what was changed...", "needs": "...what is needed for it to manifest...", "tests_run": "...command and pass/fail counts before and after..."}}
Before finishing: confirm demo.py FAILs with the patch and PASSes on the unchanged code (do NOT use `git stash`, the stash is shared between worktrees; use `git -C {wt} diff > {out}/patch.diff; git -C {wt} checkout -- .; <run demo>; git -C {wt} apply {out}/patch.diff`), and that the test-suite result is identical to the unchanged tree. Leave the worktree with your change applied. Reply with a 5-line summary.""")
