#!/bin/bash
# confirm.sh <name> <PROP> [tier]: confirm a sub-agent's change in its scratch
# worktree (never touches /repo): (1) stable tests with the patch, (2) demo on
# /repo (must pass) and in the worktree (must fail), (3) the property's check
# against the worktree (VERIF_REPO).
n=$1; P=$2; T=${3:-quick}
wt=/tmp/mut/$n; out=/tmp/mutout/$n
git -C $wt checkout -q -- . ; git -C $wt apply $out/patch.diff || { echo "patch does not apply in worktree"; exit 2; }
VERIF_REPO=$wt VERIF_TEST_WORKERS=6 /verif/tools/baseline.py > $out/mybaseline.log 2>&1
echo "[$n] tests: $(tail -1 $out/mybaseline.log)"
(cd /repo && /venv/bin/python $out/demo.py >/dev/null 2>&1; echo "[$n] demo unchanged: exit $?")
(cd $wt && /venv/bin/python $out/demo.py >/dev/null 2>&1; echo "[$n] demo patched: exit $?")
cd /verif
VERIF_REPO=$wt VERIF_WORKERS=${VERIF_WORKERS:-8} ./check $P --tier $T > $out/check_$P.log 2>&1; rc=$?
grep -E "^VIOLATION|^OK|^FAIL|^HARNESS|^KNOWN" $out/check_$P.log | cut -c1-220 | head -6
echo "[$n] check $P exit $rc"
