#!/bin/bash
# mkmut.sh <name> <PROP> <extra hint>: scratch worktree + prompt for a mutation agent
set -e
n=$1; P=$2; extra=$3
wt=/tmp/mut/$n
mkdir -p /tmp/mut /tmp/mutout/$n
git -C /repo worktree add --detach -q $wt HEAD
(cd /repo && git status --short --ignored | awk '/^!! /{print $2}' | grep -v egg-info | while read f; do cp -p "$f" "$wt/$f"; done)
/verif/tools/mutprompt.py $P $wt /tmp/mutout/$n "$extra" > /tmp/mutout/prompt_$n.txt
echo "$wt ready; prompt /tmp/mutout/prompt_$n.txt"
