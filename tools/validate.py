"""Validate MANIFEST.json, known_findings.json and any evidence files
against the schemas (run with python3-vt, which has jsonschema)."""
import glob
import json
import os
import sys

import jsonschema

here = os.path.dirname(os.path.dirname(os.path.abspath(__file__)))
vp = "/root/.vp"
rc = 0


def check(path, schema_path):
    global rc
    try:
        jsonschema.validate(json.load(open(path)),
                            json.load(open(schema_path)))
    except Exception as e:  # noqa
        print(f"INVALID {path}: {str(e)[:400]}")
        rc = 1


if os.path.exists(f"{vp}/MANIFEST.schema.json"):
    check(f"{here}/MANIFEST.json", f"{vp}/MANIFEST.schema.json")
    for ev in glob.glob(f"{here}/evidence/*.json"):
        check(ev, f"{vp}/EVIDENCE.schema.json")
kf = json.load(open(f"{here}/known_findings.json"))
props = {json.loads(l)["id"] for l in open(f"{here}/properties.jsonl")}
for e in kf["findings"]:
    for k in ("property", "status", "title", "where", "symptom"):
        if k not in e:
            print(f"known_findings entry lacks {k}: {e}")
            rc = 1
    if e.get("property") not in props:
        print(f"unknown property in known_findings: {e.get('property')}")
        rc = 1
    if e.get("status") not in ("open", "fixed"):
        rc = 1
man = json.load(open(f"{here}/MANIFEST.json"))
claimed = {c["property_id"] for c in man["checks"]}
na = {c["property_id"] for c in man.get("not_applicable", [])}
if claimed & na or (claimed | na) != props:
    print("MANIFEST: claimed/not_applicable do not partition the properties",
          sorted(props - claimed - na), sorted(claimed & na))
    rc = 1
print("validate:", "ok" if rc == 0 else "FAILED")
sys.exit(rc)
