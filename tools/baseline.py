#!/venv/bin/python
"""Run /repo's test-suite (guard OFF: there are no hooks) and compare with the
stable_pass list in /root/.vp/BASELINE.json.  Exit 0 iff every stable test
passes."""
import json
import os
import subprocess
import sys
import tempfile
import xml.etree.ElementTree as ET

repo = os.environ.get("VERIF_REPO", "/repo")
base = json.load(open("/root/.vp/BASELINE.json"))
stable = set(base["stable_pass"])
with tempfile.TemporaryDirectory() as td:
    xml = os.path.join(td, "junit.xml")
    cmd = ["/venv/bin/python", "-m", "pytest", "-q", "-p", "no:cacheprovider",
           "--timeout=900", "--continue-on-collection-errors",
           f"--junitxml={xml}", "-x" if "-x" in sys.argv else "-q"]
    try:
        import xdist  # noqa: F401
        cmd += ["-n", os.environ.get("VERIF_TEST_WORKERS", "8")]
    except ImportError:
        pass
    env = dict(os.environ)
    env.pop("DCLAB_VERIF", None)
    p = subprocess.run(cmd, cwd=repo, env=env, stdout=subprocess.PIPE,
                       stderr=subprocess.STDOUT, text=True)
    tail = p.stdout.strip().splitlines()[-3:]
    passed = set()
    for tc in ET.parse(xml).getroot().iter("testcase"):
        ok = not any(ch.tag in ("failure", "error", "skipped") for ch in tc)
        if ok:
            passed.add(f"{tc.get('classname')}::{tc.get('name')}")
missing = sorted(stable - passed)
print("\n".join(tail))
print(f"stable_pass={len(stable)} passed_now={len(passed)} "
      f"stable_not_passing={len(missing)}")
for m in missing[:40]:
    print("  NOT PASSING:", m)
sys.exit(1 if missing else 0)
