#!/bin/bash
# Parallel regression over all seeded changes, on scratch worktrees of /repo
# (never touches /repo's working tree):  seedsweep_par.sh [lanes] [regex on seed names]
# Prints one line per seed: DETECTED / MISSED / HARNESS-ERROR / patch does not apply.
LANES=${1:-3}
cd /verif
FILTER=${2:-.}
seeds=($(ls -d /verif/seeded/*/ | grep -E "$FILTER"))
for ((l=0; l<LANES; l++)); do
  wt=/tmp/sweep_wt_$l
  git -C /repo worktree remove --force $wt 2>/dev/null
  git -C /repo worktree add --detach -q $wt HEAD
  (cd /repo && git status --short --ignored | awk '/^!! /{print $2}' | grep -v egg-info | while read f; do cp -p "$f" "$wt/$f"; done)
done
lane() {
  l=$1; wt=/tmp/sweep_wt_$l
  for ((i=l; i<${#seeds[@]}; i+=LANES)); do
    d=${seeds[$i]}; n=$(basename $d); p=${n%%-*}
    git -C $wt checkout -q -- .
    if ! git -C $wt apply --check $d/patch.diff 2>/dev/null; then echo "$n: patch does not apply (source changed)"; continue; fi
    git -C $wt apply $d/patch.diff
    VERIF_REPO=$wt VERIF_WORKERS=6 ./check $p --tier quick > /tmp/seedsweep_$n.log 2>&1; rc=$?
    v=$(grep -c '^VIOLATION' /tmp/seedsweep_$n.log)
    if [ $rc -eq 1 ]; then echo "$n: DETECTED ($v signatures)"; elif [ $rc -eq 0 ]; then echo "$n: MISSED"; else echo "$n: HARNESS-ERROR rc=$rc"; fi
  done
}
for ((l=0; l<LANES; l++)); do lane $l & done
wait
for ((l=0; l<LANES; l++)); do git -C /repo worktree remove --force /tmp/sweep_wt_$l; done
git -C /repo worktree prune
