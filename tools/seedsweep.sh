#!/bin/bash
# Apply every seeded change in /verif/seeded to /repo in turn, run the check
# of its property (quick) and report detected / missed.  Reverts each patch.
cd /verif
if ! git -C /repo diff --quiet; then echo "repo dirty"; exit 2; fi
for d in /verif/seeded/*/; do
  n=$(basename $d); p=${n%%-*}
  if ! git -C /repo apply --check $d/patch.diff 2>/dev/null; then echo "$n: patch does not apply (source changed)"; continue; fi
  git -C /repo apply $d/patch.diff
  ./check $p --tier quick > /tmp/seedsweep_$n.log 2>&1; rc=$?
  git -C /repo checkout -- .
  v=$(grep -c '^VIOLATION' /tmp/seedsweep_$n.log)
  if [ $rc -eq 1 ]; then echo "$n: DETECTED ($v signatures)"; elif [ $rc -eq 0 ]; then echo "$n: MISSED"; else echo "$n: HARNESS-ERROR rc=$rc"; fi
done
