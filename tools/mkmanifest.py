#!/venv/bin/python
"""Generate MANIFEST.json from vf/registry.py (single source of truth)."""
import json
import os
import sys

here = os.path.dirname(os.path.dirname(os.path.abspath(__file__)))
sys.path.insert(0, here)
from vf import registry  # noqa: E402

props = [json.loads(l)["id"] for l in open(f"{here}/properties.jsonl")]
checks = []
na = []
for pid in props:
    e = registry.CHECKS.get(pid)
    if e is None:
        na.append({"property_id": pid,
                   "reason": registry.NOT_CLAIMED.get(
                       pid, "check not built yet (see DESIGN.md section 3 "
                            "for the planned bounded-exhaustive design)")})
        continue
    checks.append({
        "property_id": pid,
        "quick_cmd": f"./check {pid} --tier quick",
        "thorough_cmd": f"./check {pid} --tier thorough",
        "evidence_file": f"/verif/evidence/{pid}.json",
        "replay_cmd_template": f"./check {pid} --replay {{path}}",
        "engine": e["engine"],
        "level_claimed": {"category": e["level"], "text": e["text"],
                          "design_ref": f"DESIGN.md section 3, {pid}"},
        "level_note": e["note"],
        "technique": e["technique"],
    })
man = {
    "version": 1,
    "setup_cmd": "./setup.sh",
    "hooks": {
        "guard": "DCLAB_VERIF",
        "enable": "no source hooks: every seam is installed by the harness "
                  "process (monkeypatching documented module globals and "
                  "h5py/pathlib entry points); DCLAB_VERIF is reserved and "
                  "unused",
        "baseline_off_cmd": "cd /verif && tools/baseline.py",
        "source_commits": [],
        "add_only": True,
    },
    "engines": registry.ENGINES,
    "checks": checks,
    "not_applicable": na,
    "notes": registry.NOTES,
}
with open(f"{here}/MANIFEST.json", "w") as f:
    json.dump(man, f, indent=1)
    f.write("\n")
print(f"MANIFEST.json: {len(checks)} checks, {len(na)} not claimed")
