#!/venv/bin/python
"""Append an entry to known_findings.json (editing aid, never used at run
time).  usage: finding.py PROP fixed|open WHERE SYMPTOM WITNESS TEXT [commit]
            [when-json]"""
import json
import sys
p = "/verif/known_findings.json"
d = json.load(open(p))
prop, status, where, symptom, witness, text = sys.argv[1:7]
commit = sys.argv[7] if len(sys.argv) > 7 else None
when = json.loads(sys.argv[8]) if len(sys.argv) > 8 else {}
e = {"property": prop, "status": status}
if status == "fixed":
    e["commit"] = commit
    e["title"] = f"fixed: property={prop} {commit} {text}"
else:
    e["title"] = text
    e["when"] = when
e.update({"where": where, "symptom": symptom, "witness": witness})
d["findings"].append(e)
json.dump(d, open(p, "w"), indent=1, ensure_ascii=False)
open(p, "a").write("\n")
print("added", e["title"])
