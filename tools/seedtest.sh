#!/bin/bash
# usage: seedtest.sh <seed-dir> <PROP> [tier]
# Applies <seed-dir>/patch.diff to /repo, runs the demonstration and the
# property's check, and reverts.  Never commits anything in /repo.
set -u
D=$1; P=$2; T=${3:-quick}
cd /verif
if ! git -C /repo diff --quiet; then echo "repo dirty"; exit 2; fi
echo "== demo on unchanged tree"; (cd /repo && /venv/bin/python $D/demo.py >/dev/null 2>&1; echo "exit $?")
git -C /repo apply $D/patch.diff || { echo "patch does not apply"; exit 2; }
echo "== demo with patch"; (cd /repo && /venv/bin/python $D/demo.py 2>&1 | tail -3; echo "exit ${PIPESTATUS[0]}")
echo "== check $P ($T) with patch"
./check $P --tier $T > /tmp/seedtest_$P.log 2>&1; rc=$?
grep -E "^VIOLATION|^OK|^FAIL|^HARNESS|^KNOWN" /tmp/seedtest_$P.log | cut -c1-200 | head -8
grep -A1 "^VIOLATION" /tmp/seedtest_$P.log | grep -v "^VIOL\|^--" | cut -c1-300 | head -4
echo "check exit $rc"
git -C /repo checkout -- . ; git -C /repo status --short | head -3
