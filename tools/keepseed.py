#!/venv/bin/python
"""keepseed.py <name> <mutout-dir> <PROP> <detected-by> <notes>
Copy a confirmed seeded change into /verif/seeded/<name>/."""
import json
import pathlib
import shutil
import sys
name, src, prop, detected, notes = sys.argv[1:6]
src = pathlib.Path(src)
dst = pathlib.Path("/verif/seeded") / name
dst.mkdir(parents=True, exist_ok=True)
shutil.copy(src / "patch.diff", dst / "patch.diff")
shutil.copy(src / "demo.py", dst / "demo.py")
meta = json.loads((src / "meta.json").read_text())
base = (src / "mybaseline.log").read_text().strip().splitlines()[-1] \
    if (src / "mybaseline.log").exists() else "not run"
meta.update({"property": prop, "origin": "independent sub-agent (property "
             "text only)", "detected_by": detected,
             "confirmed": {"tests_in_scratch_worktree": base,
                           "demo": "PASS on unchanged tree, FAIL with patch "
                                   "(tools/seedtest.sh)",
                           "notes": notes}})
(dst / "meta.json").write_text(json.dumps(meta, indent=1) + "\n")
print("kept", dst, base)
