#!/bin/bash
# Offline setup after a fresh restore: nothing is downloaded.  Stamps/rebuilds
# the compiled extensions of /repo if their generated .c changed, validates
# MANIFEST.json / known_findings.json and runs the explorer's self-tests.
set -e
cd "$(dirname "$(readlink -f "$0")")"
export PYTHONHASHSEED=0 PYTHONDONTWRITEBYTECODE=1
mkdir -p .build evidence replays
/venv/bin/python -m vf.selftest
if command -v python3-vt >/dev/null 2>&1; then
  python3-vt tools/validate.py
fi
echo "setup ok"
