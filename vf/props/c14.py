"""C14 -- basins are only followed when matching, acyclic and permitted.

E3: all directed graphs of file basins on 2 and 3 files (self-loops
included), run-identifier assignments, location kinds, remote definitions
through the in-memory HTTP host and opening through RTDC_HTTP.  Oracle: a
small reference resolver; every open/read runs under an alarm.
"""
import itertools
import os
import shutil
import signal

import h5py
import numpy as np

from .. import fakehttp, gen, par
from ..runner import violation

PROPERTY = "C14"
LEVEL = "exploration"
CORE = "dclab.rtdc_dataset.core:RTDCBase.basins_retrieve"
N = 4
# events of a mapped referrer: out of order, one basin event twice
MAPPED = [2, 0, 0, 3]
FEATS = ["deform", "area_um", "bright_avg", "pos_x", "pos_y", "size_x"]
TIMEOUT = 20


class Timeout(BaseException):
    pass


def _alarm(signum, frame):
    raise Timeout()


def data_for(j):
    return np.arange(N) * 1.5 + 100.0 * (j + 1)


IDS = {"same": "vf-run", "prefix": "vf-run-ab12", "other": "zz-run",
       "missing": None}


def remote_url(fmt, b):
    if fmt == "s3":
        return f"http://vf-s3.example/vf-bucket/f{b}.rtdc"
    if fmt == "dcor":
        return ("https://dcor.vf.example/api/3/action/dcserv?id="
                f"00000000-0000-4000-8000-00000000000{b}")
    return f"http://vf.example/f{b}.rtdc"


def dcor_answers(path, extra_basins=()):
    """What a DCOR server (dcserv API version 2) answers for the resource
    made from `path`: metadata, an HTTP basin with the data, the basin
    definitions stored in the file itself, logs and tables."""
    import dclab
    with dclab.new_dataset(path) as ds:
        meta = {}
        for sec in ds.config:
            if sec in ("filtering", "calculation", "user"):
                continue
            meta[sec] = {k: (v.item() if hasattr(v, "item") else v)
                         for k, v in dict(ds.config[sec]).items()}
        own = [dict(bd) for bd in ds.basins_get_dicts()]
    b = int(path.stem[1:])
    basins = list(extra_basins) + [
        {"type": "remote", "format": "http", "name": "data",
         "description": "", "urls": [remote_url("http", b)],
         "key": f"dcor-data-{b}"}] + own
    return {"valid": True, "metadata": meta, "basins": basins, "logs": {},
            "tables": {}, "size": N, "feature_list": []}


def write_graph(d, nfiles, edges, ids=None, mapped=(), loc="abs",
                remote_host=None, features_restrict=None,
                features_empty=None):
    """File i stores FEATS[i]; edges (i, j) are basin definitions i -> j."""
    from dclab.rtdc_dataset.writer import RTDCWriter
    ids = ids or ["same"] * nfiles
    paths = [d / f"f{i}.rtdc" for i in range(nfiles)]
    for i, p in enumerate(paths):
        with RTDCWriter(p, mode="reset") as hw:
            meta = gen.complete_meta(N, fl=False, run_id=IDS[ids[i]] or "x")
            if IDS[ids[i]] is None:
                meta["experiment"].pop("run identifier")
                meta["setup"].pop("identifier")   # no fallback identifier
            hw.store_metadata(meta)
            hw.store_feature(FEATS[i], data_for(i))
            for (a, b) in edges:
                if a != i:
                    continue
                kw = {}
                if features_restrict and (a, b) in features_restrict:
                    kw["basin_feats"] = [FEATS[b]]
                if features_empty and (a, b) in features_empty:
                    kw["basin_feats"] = []
                if (a, b) in mapped:
                    kw["basin_map"] = np.array(MAPPED, dtype=np.uint64)
                if remote_host is not None and (a, b) in remote_host:
                    # a set: plain HTTP; a dict: (a, b) -> http | s3 | dcor
                    rfmt = remote_host[(a, b)] if isinstance(
                        remote_host, dict) else "http"
                    hw.store_basin(f"b{a}{b}", "remote", rfmt,
                                   [remote_url(rfmt, b)],
                                   verify=False, **kw)
                    continue
                dangling = str(d / "does-not-exist" / paths[b].name)
                decoy = d / f"decoy{b}.rtdc"
                if loc.startswith("decoy") or "decoy" in loc:
                    # same feature, other values, unrelated identifier
                    if not decoy.exists():
                        with RTDCWriter(decoy, mode="reset") as hd:
                            hd.store_metadata(gen.complete_meta(
                                N, fl=False, run_id="decoy-run"))
                            hd.store_feature(FEATS[b], data_for(b) + 0.25)
                if loc == "abs":
                    locs = [str(paths[b])]
                elif loc in ("rel", "rel-cwd-decoy"):
                    locs = [paths[b].name]
                    if loc == "rel-cwd-decoy":
                        # a file of the same name, from another
                        # measurement, in the working directory
                        cw = d / "cwd"
                        cw.mkdir(exist_ok=True)
                        if not (cw / paths[b].name).exists():
                            with RTDCWriter(cw / paths[b].name,
                                            mode="reset") as hd:
                                hd.store_metadata(gen.complete_meta(
                                    N, fl=False, run_id="decoy-run"))
                                hd.store_feature(FEATS[b],
                                                 data_for(b) + 0.25)
                elif loc == "dangling+abs":
                    locs = [dangling, str(paths[b])]
                elif loc == "dangling+rel":
                    locs = [dangling, paths[b].name]
                elif loc == "decoy+abs":
                    locs = [str(decoy), str(paths[b])]
                elif loc == "abs+decoy":
                    locs = [str(paths[b]), str(decoy)]
                elif loc == "decoy-only":
                    locs = [str(decoy), decoy.name]
                else:
                    locs = [dangling]
                hw.store_basin(f"b{a}{b}", "file", "hdf5", locs,
                               verify=False, **kw)
    return paths


def reference(nfiles, edges, ids, mapped, usable=lambda a, b: True,
              restrict=(), empty=()):
    """offered[i] = {j: composed map} reachable through usable edges whose
    identifier rule holds; the first (shortest, lowest index) route wins for
    the value map. None means 'unconstrained'."""
    def rule(a, b):
        ra, rb = IDS[ids[a]], IDS[ids[b]]
        if ra is None:
            return None             # referrer has no identifier: no check
        if rb is None:
            return False
        if (a, b) in mapped:
            return ra.startswith(rb)
        return ra == rb
    offered = []
    for i in range(nfiles):
        got = {i: [np.arange(N)]}
        unconstrained = set()
        stack = [(i, np.arange(N), (i,))]
        while stack:
            cur, cmap, path = stack.pop()
            for (a, b) in edges:
                if a != cur or not usable(a, b):
                    continue
                r = rule(a, b)
                m = np.array(MAPPED) if (a, b) in mapped else \
                    np.arange(N)
                if r is None:
                    # everything behind an unchecked edge is unconstrained
                    todo = [b]
                    while todo:
                        x = todo.pop()
                        if x in unconstrained:
                            continue
                        unconstrained.add(x)
                        todo += [bb for (aa, bb) in edges if aa == x]
                    continue
                if not r or b in path:
                    continue
                cm = m[cmap] if False else m[np.arange(N)][cmap] \
                    if (a, b) not in mapped else m[cmap]
                if (a, b) in empty:
                    continue        # an empty feature list offers nothing
                got.setdefault(b, []).append(cm)
                if (a, b) in restrict:
                    # the definition lists only b's own feature: nothing
                    # stored further down may be offered through it
                    continue
                stack.append((b, cm, path + (b,)))
        offered.append((got, unconstrained))
    return offered


def check_open(path, i, nfiles, ref, case, tags, opener=None):
    """Open file i and compare offered features / values with the
    reference."""
    import dclab
    out = []
    got_ref, unconstrained = ref[i]

    def bad(symptom, detail, **t):
        out.append(violation(CORE, symptom, case, detail, dict(tags, **t)))
    old = signal.signal(signal.SIGALRM, _alarm)
    signal.alarm(TIMEOUT)
    try:
        ds = opener(path) if opener else dclab.new_dataset(path)
        try:
            # every feature is asked for twice on the same open dataset:
            # what the first access refuses, the second must refuse too
            for j in [jj for jj in range(nfiles)] * 2:
                feat = FEATS[j]
                if j in unconstrained and j not in got_ref:
                    continue
                offered = feat in ds
                try:
                    val = np.asarray(ds[feat][:]) if offered else None
                except BaseException as e:
                    if isinstance(e, Timeout):
                        raise
                    val = None
                    if j in got_ref:
                        bad("exception", f"file {i}: reading {feat}: "
                            f"{type(e).__name__}: {e}",
                            exc=type(e).__name__)
                    else:
                        # listed as available although no usable basin
                        # provides it (and indeed it cannot be read)
                        bad("unavailable-feature-listed",
                            f"file {i}: '{feat}' in ds is True but no "
                            f"usable basin provides it (reading raises "
                            f"{type(e).__name__})")
                    continue
                if j in got_ref:
                    if not offered:
                        bad("feature-not-offered",
                            f"file {i} should offer {feat} (from file {j})")
                    else:
                        exps = [data_for(j)[m] for m in got_ref[j]]
                        if not any(gen.arrays_equal(val, e) for e in exps):
                            bad("wrong-data", f"file {i} {feat}: {val} not "
                                f"in {[e.tolist() for e in exps]}")
                elif offered and val is not None:
                    bad("non-matching-basin-followed",
                        f"file {i} offers {feat} of file {j} although no "
                        f"permitted route exists (value {val})")
        finally:
            ds.close()
    except Timeout:
        bad("non-termination", f"opening/reading file {i} took > {TIMEOUT}s")
    except RecursionError as e:
        bad("non-termination", f"file {i}: RecursionError {e}")
    except BaseException as e:
        bad("exception", f"file {i}: {type(e).__name__}: {e}",
            exc=type(e).__name__)
    finally:
        signal.alarm(0)
        signal.signal(signal.SIGALRM, old)
    return out


def _mkdir(scratch, tag):
    d = scratch / f"c14_{tag}_{os.getpid()}"
    if d.exists():
        shutil.rmtree(d)
    d.mkdir()
    return d


def _topology_case(args):
    nfiles, lo, hi, scratch = args
    out = []
    pairs = list(itertools.product(range(nfiles), repeat=2))
    cnt = 0
    nt = 0
    for bits in range(lo, hi):
        edges = [p for k, p in enumerate(pairs) if bits >> k & 1]
        d = _mkdir(scratch, "top")
        case = {"kind": "topology", "nfiles": nfiles, "edges": edges}
        tags = {"kind": "topology",
                "selfloop": any(a == b for a, b in edges)}
        try:
            paths = write_graph(d, nfiles, edges)
            ref = reference(nfiles, edges, ["same"] * nfiles, ())
            for i in range(nfiles):
                out += check_open(paths[i], i, nfiles, ref, case, tags)
            cnt += 1
            nt += bool(edges)
        finally:
            shutil.rmtree(d, ignore_errors=True)
    return cnt, out, nt


SHAPES = {
    "edge": (2, [(0, 1)]),
    "chain": (3, [(0, 1), (1, 2)]),
    "diamond": (4, [(0, 1), (0, 2), (1, 3), (2, 3)]),
    "cycle3": (3, [(0, 1), (1, 2), (2, 0)]),
    "cycle4": (4, [(0, 1), (1, 2), (2, 3), (3, 0)]),
    "chain4": (4, [(0, 1), (1, 2), (2, 3)]),
}
# graphs on 5 and 6 files (thorough tier; identifiers: all equal and every
# single-position deviation)
BIG_SHAPES = {
    "cycle5": (5, [(0, 1), (1, 2), (2, 3), (3, 4), (4, 0)]),
    "cycle6": (6, [(0, 1), (1, 2), (2, 3), (3, 4), (4, 5), (5, 0)]),
    "chain6": (6, [(0, 1), (1, 2), (2, 3), (3, 4), (4, 5)]),
    "lasso6": (6, [(0, 1), (1, 2), (2, 3), (3, 4), (4, 5), (5, 2)]),
    "ladder6": (6, [(0, 1), (0, 2), (1, 3), (2, 3), (3, 4), (3, 5),
                    (4, 5), (5, 0)]),
}
SHAPES.update(BIG_SHAPES)


def _id_case(args):
    shape, idsets, mapped_all, loc, scratch = args
    nfiles, edges = SHAPES[shape]
    out = []
    cnt = 0
    for ids in idsets:
        for mp in ((), tuple(edges)) if mapped_all else ((),):
            d = _mkdir(scratch, "id")
            case = {"kind": "ids", "shape": shape, "ids": list(ids),
                    "mapped": [list(e) for e in mp], "loc": loc}
            tags = {"kind": "ids", "mapped": bool(mp), "loc": loc,
                    "basin_id_missing": any(
                        ids[b] == "missing" and ids[a] != "missing"
                        for a, b in edges)}
            try:
                paths = write_graph(d, nfiles, edges, ids=list(ids),
                                    mapped=mp, loc=loc)
                usable = (lambda a, b: False) if loc in (
                    "dangling", "decoy-only") else (lambda a, b: True)
                ref = reference(nfiles, edges, list(ids), mp, usable)
                here = os.getcwd()
                if loc == "rel-cwd-decoy":
                    os.chdir(d / "cwd")
                try:
                    for i in range(nfiles):
                        out += check_open(paths[i], i, nfiles, ref, case,
                                          tags)
                finally:
                    os.chdir(here)
                cnt += 1
            finally:
                shutil.rmtree(d, ignore_errors=True)
    return cnt, out


def _remote_id_case(args):
    """One remote edge f0 -> f1 (http / s3 / dcor), reachable, for all
    4 x 4 assignments of run identifiers x unmapped / mapped: the
    identifier rule decides whether f1's feature is offered - on the first
    access and on every later one."""
    fmt, scratch = args
    out = []
    cnt = 0
    edges = [(0, 1)]
    for ids in itertools.product(list(IDS), repeat=2):
        for mp in ((), ((0, 1),)):
            d = _mkdir(scratch, f"rid{fmt}")
            case = {"kind": "remote-ids", "fmt": fmt, "ids": list(ids),
                    "mapped": bool(mp)}
            tags = {"kind": "remote-ids", "fmt": fmt, "mapped": bool(mp),
                    "basin_id_missing": ids[1] == "missing"
                    and ids[0] != "missing"}
            try:
                host = fakehttp.FakeHost()
                paths = write_graph(d, 2, edges, ids=list(ids), mapped=mp,
                                    remote_host={(0, 1): fmt})
                for b_, p_ in enumerate(paths):
                    for f_ in ("http", "s3"):
                        host.add(remote_url(f_, b_), p_.read_bytes())
                    host.add_dcor(remote_url("dcor", b_), dcor_answers(p_))
                ref = reference(2, edges, list(ids), mp)
                with fakehttp.installed(host, s3=True):
                    out += check_open(paths[0], 0, 2, ref, case, tags)
                cnt += 1
            except BaseException as e:
                out.append(violation(CORE, "exception", case,
                                     f"{type(e).__name__}: {e}",
                                     dict(tags, exc=type(e).__name__)))
            finally:
                shutil.rmtree(d, ignore_errors=True)
    return cnt, out


def _restrict_case(args):
    """Basin definitions with an explicit feature list: the list is
    enforced, features stored further down are not offered through it."""
    shape, scratch = args
    nfiles, edges = SHAPES[shape]
    out = []
    cnt = 0
    for r in range(1, len(edges) + 1):
        for rs in itertools.combinations(edges, r):
            for mp, how in itertools.product(((), tuple(edges)),
                                             ("own-feature", "empty")):
                d = _mkdir(scratch, "res")
                case = {"kind": "restrict", "shape": shape,
                        "restrict": [list(e) for e in rs],
                        "mapped": [list(e) for e in mp], "list": how}
                tags = {"kind": "restrict", "mapped": bool(mp), "list": how}
                kw1 = {"features_restrict" if how == "own-feature"
                       else "features_empty": set(rs)}
                kw2 = {"restrict" if how == "own-feature" else "empty":
                       set(rs)}
                try:
                    paths = write_graph(d, nfiles, edges, mapped=mp, **kw1)
                    ref = reference(nfiles, edges, ["same"] * nfiles, mp,
                                    **kw2)
                    for i in range(nfiles):
                        out += check_open(paths[i], i, nfiles, ref, case,
                                          tags)
                    cnt += 1
                finally:
                    shutil.rmtree(d, ignore_errors=True)
    return cnt, out


def _remote_case(args):
    """Remote edges through the fake host; opening through RTDC_HTTP must
    never touch local basins."""
    variant, scratch = args
    import dclab
    from dclab.rtdc_dataset import fmt_http
    out = []
    d = _mkdir(scratch, f"rem{variant}")
    case = {"kind": "remote", "variant": variant}
    tags = {"kind": "remote", "variant": variant}
    try:
        host = fakehttp.FakeHost()
        if variant == "remote-chain":
            # f0 -(remote)-> f1 -(file)-> f2 : f2 must NOT be reachable
            edges = [(0, 1), (1, 2)]
            paths = write_graph(d, 3, edges, remote_host={(0, 1)})
            for p in paths:
                host.add(f"http://vf.example/{p.name}", p.read_bytes())
            ref = reference(3, edges, ["same"] * 3, (),
                            usable=lambda a, b: (a, b) == (0, 1))
            with fakehttp.installed(host):
                out += check_open(paths[0], 0, 3, ref, case, tags)
        elif variant == "http-open":
            # opened through RTDC_HTTP: file basins of f0 are not permitted
            edges = [(0, 1), (0, 2), (2, 1)]
            paths = write_graph(d, 3, edges, remote_host={(0, 2)})
            for p in paths:
                host.add(f"http://vf.example/{p.name}", p.read_bytes())
            opened = []
            orig = h5py.File.__init__

            def spy(self, name, *a, **kw):
                if isinstance(name, (str, bytes, os.PathLike)):
                    opened.append(str(name))
                return orig(self, name, *a, **kw)
            ref = reference(3, edges, ["same"] * 3, (),
                            usable=lambda a, b: (a, b) == (0, 2))
            with fakehttp.installed(host):
                h5py.File.__init__ = spy
                try:
                    out += check_open(
                        paths[0], 0, 3, ref, case, tags,
                        opener=lambda p: fmt_http.RTDC_HTTP(
                            f"http://vf.example/{p.name}"))
                finally:
                    h5py.File.__init__ = orig
            local = [o for o in opened if o.startswith(str(d))]
            if local:
                out.append(violation(
                    CORE, "local-basin-opened-from-network-format", case,
                    f"h5py.File opened local paths {local} below an "
                    f"RTDC_HTTP dataset", tags))
        elif variant in ("internal-behind-file", "internal-http",
                         "internal-behind-remote"):
            # f1 carries an internal basin for pos_y (2 stored rows, map
            # [0,1,1,0]); f0 refers to f1 by file / remote definition
            from dclab.rtdc_dataset.writer import RTDCWriter
            paths = write_graph(
                d, 2, [(0, 1)],
                remote_host={(0, 1)} if variant.endswith("remote") else None)
            imap = np.array([0, 1, 1, 0], dtype=np.uint64)
            with RTDCWriter(paths[1], mode="append") as hw:
                hw.store_basin("vf-int", "internal", "h5dataset",
                               ["basin_events"], basin_feats=["pos_y"],
                               basin_map=imap,
                               internal_data={"pos_y": np.array([7.5, 9.5])})
            for p_ in paths:
                host.add(f"http://vf.example/{p_.name}", p_.read_bytes())
            want = np.array([7.5, 9.5])[imap.astype(int)]
            with fakehttp.installed(host):
                if variant == "internal-http":
                    ds = fmt_http.RTDC_HTTP("http://vf.example/f1.rtdc")
                else:
                    ds = dclab.new_dataset(paths[0])
                try:
                    if "pos_y" not in ds:
                        out.append(violation(
                            CORE, "feature-not-offered", case,
                            "pos_y of the internal basin is not offered",
                            tags))
                    elif not gen.arrays_equal(np.asarray(ds["pos_y"][:]),
                                              want):
                        out.append(violation(
                            CORE, "wrong-data", case,
                            f"pos_y {np.asarray(ds['pos_y'][:])} != {want}",
                            tags))
                    if variant != "internal-http" and not gen.arrays_equal(
                            np.asarray(ds["area_um"][:]), data_for(1)):
                        out.append(violation(
                            CORE, "wrong-data", case, "area_um of f1", tags))
                finally:
                    ds.close()
        elif variant in ("remote-type-local-path", "internal-type-local-path",
                         "old-style-definition"):
            import json
            from dclab.rtdc_dataset.writer import RTDCWriter
            paths = write_graph(d, 3, [])           # three files, no edges

            def rewrite(h5, edit):
                """Edit the JSON of every basin definition in place."""
                for k in list(h5["basins"]):
                    lines = [x.decode() if isinstance(x, bytes) else x
                             for x in h5["basins"][k][:]]
                    bd = edit(json.loads(" ".join(lines)))
                    del h5["basins"][k]
                    h5["basins"].create_dataset(
                        k, data=np.array([json.dumps(bd).encode()]))
            if variant.endswith("-type-local-path"):
                # a definition that claims to be remote / internal but names
                # a local file in the local-file format
                claimed = variant.split("-")[0]
                with RTDCWriter(paths[0], mode="append") as hw:
                    hw.store_basin("claims", "remote", "hdf5",
                                   [str(paths[1])], verify=False)
                if claimed == "internal":
                    def retype(bd):
                        bd["type"] = "internal"
                        bd["paths"] = bd.pop("urls", bd.get("paths"))
                        return bd
                    with h5py.File(paths[0], "a") as h5:
                        rewrite(h5, retype)
                for p_ in paths:
                    host.add(f"http://vf.example/{p_.name}", p_.read_bytes())
                opened = []
                orig = h5py.File.__init__

                def spy(self, name, *a, **kw):
                    if isinstance(name, (str, bytes, os.PathLike)):
                        opened.append(str(name))
                    return orig(self, name, *a, **kw)
                with fakehttp.installed(host):
                    h5py.File.__init__ = spy
                    try:
                        ds = fmt_http.RTDC_HTTP("http://vf.example/f0.rtdc")
                        offered = FEATS[1] in ds
                        ds.close()
                    finally:
                        h5py.File.__init__ = orig
                local = [o for o in opened if o.startswith(str(d))]
                if local or offered:
                    out.append(violation(
                        CORE, "local-basin-opened-from-network-format", case,
                        f"a definition of type '{claimed}' / format 'hdf5' "
                        f"made an RTDC_HTTP dataset open {local} (feature "
                        f"offered: {offered})", tags))
            else:
                # f0: an internal (mapped) basin and a file basin whose
                # definition, as written by old versions or by hand, has
                # no "mapping" entry (= same events)
                with RTDCWriter(paths[0], mode="append") as hw:
                    hw.store_basin(
                        "vf-int", "internal", "h5dataset", ["basin_events"],
                        basin_feats=["pos_y"],
                        basin_map=np.array([0, 1, 1, 0], dtype=np.uint64),
                        internal_data={"pos_y": np.array([7.5, 9.5])})
                    hw.store_basin("old", "file", "hdf5", [str(paths[1])],
                                   verify=False)
                with h5py.File(paths[0], "a") as h5:
                    def edit(bd):
                        if bd["type"] == "file":
                            bd.pop("mapping", None)
                        return bd
                    rewrite(h5, edit)
                with dclab.new_dataset(paths[0]) as ds:
                    ok = FEATS[1] in ds and gen.arrays_equal(
                        np.asarray(ds[FEATS[1]][:]), data_for(1))
                    if not ok:
                        out.append(violation(
                            CORE, "wrong-data", case,
                            f"a definition without a 'mapping' entry next "
                            f"to a mapped one: {FEATS[1]} offered="
                            f"{FEATS[1] in ds}, values "
                            f"{np.asarray(ds[FEATS[1]][:]) if FEATS[1] in ds else None}"
                            f" expected {data_for(1)}", tags))
        elif variant in ("s3-chain", "dcor-chain", "s3-unreachable",
                         "dcor-unreachable"):
            # f0 -(remote: s3 / dcor)-> f1 -(file)-> f2, f0 opened
            # locally: f1 is reachable (unless the store does not have
            # it), f2 never (a local basin below a remote one)
            kind = variant.split("-")[0]
            edges = [(0, 1), (1, 2)]
            paths = write_graph(d, 3, edges, remote_host={(0, 1): kind})
            reach = not variant.endswith("unreachable")
            if reach:
                for b_, p_ in enumerate(paths):
                    for f_ in ("http", "s3"):
                        host.add(remote_url(f_, b_), p_.read_bytes())
                    host.add_dcor(remote_url("dcor", b_), dcor_answers(p_))
            else:
                host.hosts.update({"vf-s3.example", "dcor.vf.example"})
            opened = []
            orig = h5py.File.__init__

            def spy(self, name, *a, **kw):
                if isinstance(name, (str, bytes, os.PathLike)):
                    opened.append(str(name))
                return orig(self, name, *a, **kw)
            ref = reference(3, edges, ["same"] * 3, (),
                            usable=lambda a, b: reach and (a, b) == (0, 1))
            with fakehttp.installed(host, s3=True):
                h5py.File.__init__ = spy
                try:
                    out += check_open(paths[0], 0, 3, ref, case, tags)
                finally:
                    h5py.File.__init__ = orig
            local = [o for o in opened if o.startswith(str(d))
                     and not o.endswith(paths[0].name)]
            if local:
                out.append(violation(
                    CORE, "local-basin-opened-from-network-format", case,
                    f"h5py.File opened local paths {local} below a "
                    f"{kind} basin", tags))
        elif variant in ("s3-open", "dcor-open"):
            # f0 opened through RTDC_S3 / RTDC_DCOR: its file basin (f1) is
            # not permitted, its remote basin (f2) is, and f2's file basin
            # (f1 again) is not
            kind = variant.split("-")[0]
            edges = [(0, 1), (0, 2), (2, 1)]
            paths = write_graph(d, 3, edges,
                                remote_host={(0, 2): "http" if kind == "dcor"
                                             else "s3"})
            for b_, p_ in enumerate(paths):
                for f_ in ("http", "s3"):
                    host.add(remote_url(f_, b_), p_.read_bytes())
                host.add_dcor(remote_url("dcor", b_), dcor_answers(p_))
            opened = []
            orig = h5py.File.__init__

            def spy(self, name, *a, **kw):
                if isinstance(name, (str, bytes, os.PathLike)):
                    opened.append(str(name))
                return orig(self, name, *a, **kw)
            ref = reference(3, edges, ["same"] * 3, (),
                            usable=lambda a, b: (a, b) == (0, 2))
            from dclab.rtdc_dataset import fmt_dcor, fmt_s3
            if kind == "s3":
                def opener(p):
                    return fmt_s3.RTDC_S3(remote_url("s3", 0))
            else:
                def opener(p):
                    return fmt_dcor.RTDC_DCOR(remote_url("dcor", 0))
            with fakehttp.installed(host, s3=True):
                h5py.File.__init__ = spy
                try:
                    out += check_open(paths[0], 0, 3, ref, case, tags,
                                      opener=opener)
                finally:
                    h5py.File.__init__ = orig
            local = [o for o in opened if o.startswith(str(d))]
            if local:
                out.append(violation(
                    CORE, "local-basin-opened-from-network-format", case,
                    f"h5py.File opened local paths {local} below an "
                    f"RTDC_{kind.upper()} dataset", tags))
        elif variant == "remote-unreachable":
            edges = [(0, 1)]
            paths = write_graph(d, 2, edges, remote_host={(0, 1)})
            # host does not know the URL: feature must be unavailable
            ref = reference(2, edges, ["same"] * 2, (),
                            usable=lambda a, b: False)
            with fakehttp.installed(host):
                out += check_open(paths[0], 0, 2, ref, case, tags)
        elif variant in ("remote-unreachable-listed",
                         "remote-unreachable-listed-chain"):
            # the unreachable definition names its features explicitly; in
            # the chain variant a file basin stands in front of it
            chain = variant.endswith("chain")
            edges = [(0, 1), (1, 2)] if chain else [(0, 1)]
            rem = (1, 2) if chain else (0, 1)
            nf = 3 if chain else 2
            paths = write_graph(d, nf, edges, remote_host={rem},
                                features_restrict={rem})
            ref = reference(nf, edges, ["same"] * nf, (),
                            usable=lambda a, b: (a, b) != rem)
            with fakehttp.installed(host):
                for i in range(nf - 1):
                    out += check_open(paths[i], i, nf, ref, case, tags)
    except BaseException as e:
        out.append(violation(CORE, "exception", case,
                             f"{type(e).__name__}: {e}",
                             dict(tags, exc=type(e).__name__)))
    finally:
        shutil.rmtree(d, ignore_errors=True)
    return 1, out


def run(ctx):
    scratch = ctx.scratch
    items = [(2, lo, min(lo + 4, 16), scratch) for lo in range(0, 16, 4)]
    items += [(3, lo, min(lo + 16, 512), scratch)
              for lo in range(0, 512, 16)]
    res = par.pmap(_topology_case, items)
    idnames = list(IDS)
    iitems = []
    for shape in (("edge", "chain", "cycle3") if ctx.quick else
                  tuple(SHAPES)):
        nfiles = SHAPES[shape][0]
        if shape in BIG_SHAPES:
            allids = [("same",) * nfiles]
            for pos in range(nfiles):
                for other in idnames[1:]:
                    allids.append(("same",) * pos + (other,)
                                  + ("same",) * (nfiles - pos - 1))
            for k in range(0, len(allids), 4):
                iitems.append((shape, allids[k:k + 4], True, "abs", scratch))
            continue
        allids = list(itertools.product(idnames, repeat=nfiles))
        if nfiles == 4 and ctx.quick:
            continue
        for k in range(0, len(allids), 16):
            iitems.append((shape, allids[k:k + 16], True, "abs", scratch))
    for loc in ("rel", "rel-cwd-decoy", "dangling", "dangling+abs",
                "dangling+rel",
                "decoy+abs", "abs+decoy", "decoy-only"):
        for shape in ("edge", "chain", "cycle3"):
            iitems.append((shape, [("same",) * SHAPES[shape][0]], False, loc,
                           scratch))
    res += par.pmap(_id_case, iitems)
    res += par.pmap(_restrict_case, [(sh, scratch) for sh in SHAPES
                                     if sh not in BIG_SHAPES])
    res += par.pmap(_remote_id_case, [(f_, scratch)
                                      for f_ in ("http", "s3", "dcor")])
    res += par.pmap(_remote_case, [(v, scratch) for v in (
        "remote-chain", "http-open", "remote-unreachable",
        "s3-chain", "dcor-chain", "s3-open", "dcor-open",
        "s3-unreachable", "dcor-unreachable",
        "remote-unreachable-listed", "remote-unreachable-listed-chain",
        "internal-behind-file", "internal-http", "internal-behind-remote",
        "remote-type-local-path", "internal-type-local-path",
        "old-style-definition")])
    viols = []
    cnt = 0
    nontriv = 0
    for r in res:
        cnt += r[0]
        viols.extend(r[1])
        # identifier / restriction / remote cases all contain edges
        nontriv += r[2] if len(r) > 2 else r[0]
    cov = {"evaluations": cnt, "distinct_nontrivial": nontriv,
           "rule": "one case = a set of files with basin definitions; all "
                   "2^4 / 2^9 directed graphs (self-loops included) on 2 / "
                   "3 files with matching identifiers; per shape all 4^n "
                   "identifier assignments x unmapped/mapped; relative, "
                   "dangling and multiple locations (a dangling or a "
                   "non-matching decoy file before / after the right one); every non-empty subset of edges carrying an "
                   "explicit one-feature list (enforced); remote definitions and opening "
                   "through RTDC_HTTP over the in-memory host; non-trivial "
                   "= at least one edge",
           "graphs_3_files": 512, "samples": [
               {"edges": [[0, 1], [1, 0], [1, 2]]},
               {"shape": "chain", "ids": ["prefix", "same", "other"],
                "mapped": True}, {"remote": "http-open"}],
           "exhaustive": True}
    return {"level": LEVEL, "coverage": cov, "violations": viols,
            "assumptions": [
                "a referrer without run identifier is unconstrained (dclab "
                "documents that no check is possible)",
                f"non-termination = open/read exceeding {TIMEOUT} s",
                "graphs on 5 and 6 files: five shapes (cycles, chain, lasso, "
                "ladder) in the thorough tier only, not all graphs"]}


def replay(case, ctx):
    if case.get("kind") == "remote-ids":
        return [v for v in _remote_id_case((case["fmt"], ctx.scratch))[1]
                if v["case"] == case]
    if case["kind"] == "topology":
        pairs = list(itertools.product(range(case["nfiles"]), repeat=2))
        bits = sum(1 << k for k, p in enumerate(pairs)
                   if list(p) in [list(e) for e in case["edges"]])
        vs = _topology_case((case["nfiles"], bits, bits + 1,
                             ctx.scratch))[1]
        return vs
    if case["kind"] == "restrict":
        _, vs = _restrict_case((case["shape"], ctx.scratch))
        return [v for v in vs if v["case"] == case]
    if case["kind"] == "ids":
        _, vs = _id_case((case["shape"], [tuple(case["ids"])], True,
                          case["loc"], ctx.scratch))
        return [v for v in vs if v["case"]["mapped"] == case["mapped"]]
    _, vs = _remote_case((case["variant"], ctx.scratch))
    return vs
