"""C09 -- split partitions and join concatenates without loss or reordering.

E3: all (N, split size) pairs; joins of 2..k inputs over all orders x
missing-feature subsets x acquisition times (fractional seconds, ties).
Oracle: numpy concatenation / slicing of the generator's arrays.
"""
import datetime
import itertools
import math
import os
import shutil

import numpy as np

from .. import gen, par
from ..runner import violation

PROPERTY = "C09"
LEVEL = "exploration"
# bright_avg is left out: it is computable from image + mask, "time" (from
# frame and frame rate) is the feature that is computable for some inputs
FEATS = ["deform", "area_um", "pos_x", "time", "frame",
         "index_online", "fl1_max", "image", "mask", "trace"]
POOL = ["area_um", "deform", "pos_x", "time"]   # two adjacent pairs
FPS = 2000.0
# more UTF-8 bytes than characters, longer than 100 bytes
LONG_LINE = "flow 0.04 µl/s at 23.5 °C; " * 5 + "[end µ]"


def _mkdir(scratch, tag):
    d = scratch / f"c09_{tag}_{os.getpid()}"
    if d.exists():
        shutil.rmtree(d)
    d.mkdir()
    return d


def read_all(path, feats):
    import dclab
    out = {}
    with dclab.new_dataset(path) as ds:
        out["__len__"] = len(ds)
        out["__features__"] = sorted(ds.features_innate)
        out["__logs__"] = {k: list(ds.logs[k]) for k in ds.logs}
        out["__cfg__"] = {s: dict(ds.config[s]) for s in
                          ("experiment", "imaging", "setup")}
        for f in feats:
            if f not in ds.features_innate:
                continue
            if f == "trace":
                out[f] = {t: np.asarray(ds[f][t][:]) for t in ds[f].keys()}
            elif f == "contour":
                out[f] = [ds[f][i] for i in range(len(ds))]
            else:
                out[f] = np.asarray(ds[f][:])
    return out


# -- split ---------------------------------------------------------------------

def _split_case(args):
    n, size, zero_first, zero_last, skip, seed, scratch = args
    from dclab import cli
    d = _mkdir(scratch, f"s{n}_{size}")
    out = []
    case = {"kind": "split", "n": n, "size": size, "zero_first": zero_first,
            "zero_last": zero_last, "skip": skip, "seed": seed}
    # skip: one switch for both ends, or [initial, final] set independently
    skip_i, skip_f = (skip, skip) if isinstance(skip, bool) else skip
    tags = {"divides": n % size == 0, "size_gt_n": size > n,
            "zero_boundary": bool(zero_first or zero_last),
            "skip": skip if isinstance(skip, bool) else "mixed"}
    W = "dclab.cli.task_split:split"
    try:
        ev = gen.make_events(n, seed=seed, feats=FEATS)
        if zero_first:
            ev["image"][0] = 0
        if zero_last:
            ev["image"][-1] = 0
        src = d / "in.rtdc"
        gen.write_rtdc(src, ev, logs={"vf-log": ["a", "b"]})
        paths = cli.split(path_in=src, path_out=d / "out", split_events=size,
                          skip_initial_empty_image=skip_i,
                          skip_final_empty_image=skip_f, ret_out_paths=True)
        # (how many parts there are and where they are cut is the tool's
        # business; the property constrains their union and their size)
        keep = np.ones(n, bool)
        if skip_i and zero_first:
            keep[0] = False
        if skip_f and zero_last:
            keep[-1] = False
        parts = []
        lens = []
        for p in paths:
            if not p.exists():
                out.append(violation(W, "part-missing", case, p.name, tags))
                continue
            r = read_all(p, FEATS)
            parts.append(r)
            lens.append(r["__len__"])
            if r["__len__"] > size:
                out.append(violation(W, "part-too-large", case,
                                     f"{p.name}: {r['__len__']} > {size}",
                                     tags))
            # retained under whatever name (dclab: "src_vf-log")
            if not any("vf-log" in k and list(v) == ["a", "b"]
                       for k, v in r["__logs__"].items()):
                out.append(violation(W, "log-missing", case, p.name, tags))
        # the parts, in order, hold the kept events exactly once and in
        # order: part i holds the next lens[i] of them
        kept = np.flatnonzero(keep)
        if sum(lens) != len(kept):
            out.append(violation(
                W, "wrong-part-data", case,
                f"the parts hold {sum(lens)} events in total ({lens}), "
                f"the measurement has {len(kept)} to distribute",
                dict(tags, feat="count")))
        pos = 0
        for i, r in enumerate(parts):
            idx = kept[pos:pos + lens[i]]
            pos += lens[i]
            for f in FEATS:
                if f == "index_online" and f not in r:
                    continue
                if f not in r:
                    if len(idx):
                        out.append(violation(W, "feature-missing", case,
                                             f"part {i + 1}: {f}", tags))
                    continue
                if len(idx) != lens[i]:
                    ok = False      # more events in the parts than exist
                elif f == "trace":
                    ok = all(gen.arrays_equal(r[f][t], ev[f][t][idx])
                             for t in ev[f])
                else:
                    ok = gen.arrays_equal(r[f], ev[f][idx])
                if not ok:
                    out.append(violation(
                        W, "wrong-part-data", case,
                        f"part {i + 1}/{len(parts)} {f}: expected events "
                        f"{idx.tolist()}, part lengths {lens}",
                        dict(tags, feat=f)))
    except Exception as e:
        out.append(violation(W, "exception", case,
                             f"{type(e).__name__}: {e}",
                             dict(tags, exc=type(e).__name__)))
    finally:
        shutil.rmtree(d, ignore_errors=True)
    return out


# -- join ----------------------------------------------------------------------

TIMES = {
    "t0": ("2020-01-02", "12:00:00"),
    "t0f": ("2020-01-02", "12:00:00.50"),
    "t1": ("2020-01-02", "12:00:01"),
    "t2": ("2020-01-02", "12:01:00.25"),
    "d1": ("2020-01-03", "00:00:00"),
}


def _abs_time(date, tm):
    base = datetime.datetime.strptime(date + tm[:8], "%Y-%m-%d%H:%M:%S")
    frac = float(tm[8:]) if len(tm) > 8 else 0.0
    return base.timestamp() + frac


def _join_case(args):
    spec, seed, scratch = args[:3]
    tiny = args[3] if len(args) > 3 else False
    """spec: list of (time key, missing features tuple, n events)"""
    from dclab import cli
    import contextlib
    d = _mkdir(scratch, "j")
    out = []
    # every second join case gives the inputs different frame rates (the
    # frame offset of an input is counted in that input's own frames)
    fps_of = (lambda j: FPS) if not tiny else \
        (lambda j: (2000.0, 3000.0, 1500.0, 2500.0, 1000.0)[j % 5])
    case = {"kind": "join", "spec": [list(map(
        lambda x: list(x) if isinstance(x, tuple) else x, s)) for s in spec],
        "seed": seed, "tiny_chunks": tiny}
    chunks = gen.chunk_bytes(100) if tiny else contextlib.nullcontext()
    W = "dclab.cli.task_join:join"
    miss_any = sorted({m for s in spec for m in s[1]})
    tags = {"k": len(spec),
            "adjacent_missing": any(
                {"area_um", "deform"} <= set(s[1]) or
                {"pos_x", "time"} <= set(s[1]) for s in spec[0:]),
            "fractional": any(len(TIMES[s[0]][1]) > 8 for s in spec),
            "tie": len({s[0] for s in spec}) < len(spec)}
    try:
        paths = []
        evs = []
        for j, sp in enumerate(spec):
            tkey, missing, n = sp[:3]
            # optional fourth entry: the run index of this input
            ridx = sp[3] if len(sp) > 3 else 1
            feats = [f for f in FEATS if f not in missing]
            ev = gen.make_events(n, seed=seed + 10 * j, special=False,
                                 feats=feats)
            date, tm = TIMES[tkey]
            # the given order is the reverse of the path order
            p = d / f"in{9 - j}_{'zyxwv'[j]}.rtdc"
            mj = gen.complete_meta(n, date=date, time=tm, run_index=ridx,
                                   run_id=f"vf-run-{j}")
            mj["imaging"]["frame rate"] = fps_of(j)
            if "time" in ev and "frame" in ev:
                # keep the stored time consistent with frame / frame rate
                ev["time"] = np.asarray(ev["frame"], float) / fps_of(j)
            gen.write_rtdc(p, ev, meta=mj, logs={f"log{j}": [
                f"line of {j}"] + ([LONG_LINE] if j % 2 == 0 else [])})
            paths.append(p)
            evs.append(ev)
        outp = d / "joined.rtdc"
        with chunks:
            cli.join(paths_in=paths, path_out=outp)
        # chronological order, ties in the given order
        order = sorted(range(len(spec)),
                       key=lambda j: _abs_time(*TIMES[spec[j][0]]))
        t0 = _abs_time(*TIMES[spec[order[0]][0]])
        first = evs[order[0]]

        def available(ev, f):
            return f in ev or (f == "time" and "frame" in ev)
        exp_feats = [f for f in FEATS if f in first and all(
            available(e, f) for e in evs)]
        r = read_all(outp, FEATS)
        got_feats = [f for f in r["__features__"] if f in FEATS]
        if sorted(got_feats) != sorted(exp_feats):
            out.append(violation(
                W, "wrong-feature-set", case,
                f"joined file has {sorted(got_feats)}, expected "
                f"{sorted(exp_feats)} (missing per input: "
                f"{[list(s[1]) for s in spec]})", tags))
        ntot = sum(s[2] for s in spec)
        if r["__len__"] != ntot:
            out.append(violation(W, "wrong-length", case,
                                 f"{r['__len__']} != {ntot}", tags))
        ido = 0
        for f in exp_feats:
            if f not in r:
                continue
            chunks = []
            ido_next = 0
            for pos, j in enumerate(order):
                ev = evs[j]
                dt = _abs_time(*TIMES[spec[j][0]]) - t0
                if f == "time":
                    base = ev["time"] if "time" in ev else \
                        np.asarray(ev["frame"], float) / fps_of(j)
                    chunks.append(base + dt)
                elif f == "frame":
                    chunks.append(ev["frame"] + int(round(dt * fps_of(j))))
                elif f == "index_online":
                    if pos == 0:
                        chunks.append(ev[f])
                    else:
                        chunks.append(ev[f] + ido_next)
                    ido_next = chunks[-1][-1] + 1
                elif f == "trace":
                    chunks.append(ev[f])
                else:
                    chunks.append(ev[f])
            if f == "trace":
                ok = all(gen.arrays_equal(
                    r[f][t], np.concatenate([c[t] for c in chunks]))
                    for t in first["trace"])
            elif f == "time":
                exp = np.concatenate(chunks)
                ok = r[f].shape == exp.shape and np.allclose(
                    r[f], exp, rtol=0, atol=1e-9)
            else:
                ok = gen.arrays_equal(r[f], np.concatenate(chunks))
            if not ok:
                out.append(violation(
                    W, "wrong-joined-data", case,
                    f"{f}: chronological order {order}; got "
                    f"{np.asarray(r[f]).tolist()!r:.300}",
                    dict(tags, feat=f)))
        import dclab
        with dclab.new_dataset(outp) as ds:
            if not np.array_equal(ds["index"][:], np.arange(1, ntot + 1)):
                out.append(violation(W, "wrong-index", case,
                                     f"{ds['index'][:]}", tags))
        for pos, j in enumerate(order):
            # retained under whatever name (dclab: "src-#<k>_log<j>")
            want = [f"line of {j}"] + ([LONG_LINE] if j % 2 == 0 else [])
            if not any(f"log{j}" in k and list(v) == want
                       for k, v in r["__logs__"].items()):
                out.append(violation(
                    W, "log-missing", case,
                    f"log{j} (input {pos + 1}) not in "
                    f"{sorted(r['__logs__'])}", tags))
    except Exception as e:
        out.append(violation(W, "exception", case,
                             f"{type(e).__name__}: {e}",
                             dict(tags, exc=type(e).__name__)))
    finally:
        shutil.rmtree(d, ignore_errors=True)
    return out


def _roundtrip_case(args):
    n, size, seed, scratch = args[:4]
    tiny = args[4] if len(args) > 4 else False
    from dclab import cli
    import contextlib
    d = _mkdir(scratch, f"r{n}_{size}")
    out = []
    case = {"kind": "roundtrip", "n": n, "size": size, "seed": seed,
            "tiny_chunks": tiny}
    # tiny chunks: ten images per HDF5 chunk (the writer's minimum), so that
    # the appends of join
    # start inside a chunk and run across chunk boundaries
    chunks = gen.chunk_bytes(100) if tiny else contextlib.nullcontext()
    W = "dclab.cli.task_join:join"
    try:
        ev = gen.make_events(n, seed=seed, feats=FEATS)
        src = d / "in.rtdc"
        gen.write_rtdc(src, ev)
        parts = cli.split(path_in=src, path_out=d / "out", split_events=size,
                          ret_out_paths=True)
        if len(parts) >= 2:
            outp = d / "joined.rtdc"
            with chunks:
                cli.join(paths_in=parts, path_out=outp)
            r = read_all(outp, FEATS)
            for f in FEATS:
                if f in ("index_online",):
                    continue     # made continuous by join (by design)
                if f == "trace":
                    ok = f in r and all(gen.arrays_equal(r[f][t], ev[f][t])
                                        for t in ev[f])
                else:
                    ok = f in r and gen.arrays_equal(r[f], ev[f])
                if not ok:
                    out.append(violation(
                        W, "roundtrip-differs", case,
                        f"{f} after split({size})+join", {"feat": f}))
    except Exception as e:
        out.append(violation(W, "exception", case,
                             f"{type(e).__name__}: {e}",
                             {"exc": type(e).__name__, "roundtrip": True}))
    finally:
        shutil.rmtree(d, ignore_errors=True)
    return out


def join_specs(ctx):
    specs = []
    subsets = [()] + [(f,) for f in POOL] + [
        ("area_um", "deform"), ("pos_x", "time"),
        ("area_um", "pos_x"), tuple(POOL)]
    if ctx.thorough:
        subsets = [tuple(c) for r in range(len(POOL) + 1)
                   for c in itertools.combinations(POOL, r)]
    # k = 2: all orders x every subset missing in either input
    for ta, tb in itertools.permutations(["t0", "t1"], 2):
        for ma in subsets:
            for mb in subsets:
                specs.append([(ta, ma, 3), (tb, mb, 2)])
    # times incl. fractional seconds and ties, nothing missing
    tkeys = list(TIMES)
    for ta, tb in itertools.product(tkeys, repeat=2):
        specs.append([(ta, (), 2), (tb, (), 3)])
    # k = 3: all orders of three times x a family of missing subsets
    fam = [(), ("area_um", "deform"), ("time",)]
    for perm in itertools.permutations(["t0", "t1", "t2"]):
        for ms in itertools.product(fam, repeat=3):
            specs.append([(perm[0], ms[0], 2), (perm[1], ms[1], 2),
                          (perm[2], ms[2], 3)])
    # ties (same date and time) between inputs whose run indices grow in the
    # given order and have different numbers of digits: given order and
    # run-index order agree, so the expected order is unambiguous
    for ris in ((9, 10, 11), (2, 10), (99, 100), (1, 2, 3), (8, 9, 10, 11)):
        specs.append([("t0", (), 2 + (i % 2), ri)
                      for i, ri in enumerate(ris)])
        specs.append([("t1", (), 2, 7)] + [("t0", (), 2 + (i % 2), ri)
                                           for i, ri in enumerate(ris)])
    if ctx.thorough:
        for k in (4, 5):
            for perm in itertools.permutations(tkeys[:k]):
                if perm[0] > perm[-1] and k == 5:
                    continue
                specs.append([(t, fam[i % 3], 2) for i, t in
                              enumerate(perm)])
        for ta, tb, tc in itertools.product(["t0", "t0f", "t1"], repeat=3):
            specs.append([(ta, (), 2), (tb, (), 2), (tc, (), 2)])
    return specs


def run(ctx):
    scratch = ctx.scratch
    nmax = 10 if ctx.quick else 12
    sitems = []
    for n in range(1, nmax + 1):
        for size in range(1, n + 3):
            sitems.append((n, size, False, False, True, ctx.seed, scratch))
            if n >= 3 and size in (1, 2, n):
                sitems.append((n, size, True, True, True, ctx.seed, scratch))
                sitems.append((n, size, True, True, False, ctx.seed,
                               scratch))
                # the two switches set independently, one empty boundary
                # image at a time and both
                for zf, zl in ((True, True), (True, False), (False, True)):
                    for sk in ([True, False], [False, True]):
                        sitems.append((n, size, zf, zl, sk, ctx.seed,
                                       scratch))
    # chunk configuration: alternating (quick) / both (thorough)
    jitems = [(s, ctx.seed, scratch, bool(t))
              for i, s in enumerate(join_specs(ctx))
              for t in ((i % 2,) if ctx.quick else (0, 1))]
    ritems = [(n, size, ctx.seed, scratch, t)
              for n in ((5, 8) if ctx.quick else (5, 8, 12))
              for size in range(1, n) for t in (False, True)]
    # the writer never uses fewer than 10 events per chunk: 23 events in
    # parts of 4 / 7 / 9 / 12 make join append across chunk boundaries from
    # offsets inside a chunk
    ritems += [(23, size, ctx.seed, scratch, True)
               for size in ((4, 7, 9, 12) if ctx.quick else range(2, 23))]
    viols = []
    for vs in par.pmap(_split_case, sitems):
        viols.extend(vs)
    for vs in par.pmap(_join_case, jitems):
        viols.extend(vs)
    for vs in par.pmap(_roundtrip_case, ritems):
        viols.extend(vs)
    nontriv = sum(1 for s in sitems if 1 < s[1] < s[0]) + sum(
        1 for j in jitems if any(x[1] for x in j[0])
        or len({x[0] for x in j[0]}) > 1)
    cov = {"evaluations": len(sitems) + len(jitems) + len(ritems),
           "distinct_nontrivial": nontriv,
           "split_cases": len(sitems), "join_cases": len(jitems),
           "roundtrip_cases": len(ritems),
           "rule": "split: every (N, size) with N<=8 (quick) / 12 and size "
                   "1..N+2, plus zero boundary images with both flag "
                   "settings; join: k=2 all orders x all pairs of missing-"
                   "feature subsets from a 4-feature pool with two adjacent "
                   "pairs, all pairs of 5 acquisition times (fractional "
                   "seconds, date change, ties), k=3 all 6 orders x 27 "
                   "missing-subset assignments (thorough: k=4,5); roundtrip "
                   "split+join; join runs with the default and with a tiny "
                   "HDF5 chunk size (10 events per chunk, 23-event round "
                   "trips crossing chunk boundaries); non-trivial = size strictly between 1 and N "
                   "/ differing times or feature sets",
           "samples": [{"split": [sitems[5][0], sitems[5][1]]},
                       {"join": jitems[len(jitems) // 2][0]},
                       {"roundtrip": [ritems[0][0], ritems[0][1]]}],
           "exhaustive": True}
    # one large input (30000 events) through this property's entry points
    from .. import big
    viols = list(viols) + big.violations("C09", ctx.scratch)
    cov["big_input_events"] = big.N
    return {"level": LEVEL, "coverage": cov, "violations": viols,
            "assumptions": [
                "ties are generated with equal run index (the property says "
                "'ties in the given order')",
                "index_online is excluded from the split+join round trip "
                "(join makes it continuous by design)"]}


def replay(case, ctx):
    if case.get("kind") == "big":
        from .. import big
        return big.violations("C09", ctx.scratch)
    if case["kind"] == "split":
        return _split_case((case["n"], case["size"], case["zero_first"],
                            case["zero_last"], case["skip"], case["seed"],
                            ctx.scratch))
    if case["kind"] == "roundtrip":
        return _roundtrip_case((case["n"], case["size"], case["seed"],
                                ctx.scratch, case.get("tiny_chunks", False)))
    spec = [(s[0], tuple(s[1])) + tuple(s[2:]) for s in case["spec"]]
    return _join_case((spec, case["seed"], ctx.scratch,
                       case.get("tiny_chunks", False)))
