"""C04 -- a hierarchy child is exactly the filtered view of its parent.

E1: BFS over histories of filter edits on any level, manual exclusions on any
level, temporary-feature assignment, root configuration changes and refreshes
of the youngest member, on a real root -> c1 -> c2 (-> c3) hierarchy.
Model: per level a window and a *set of root ids* the user excluded there.
"""
import numpy as np

from .. import explore, gen, par
from ..runner import violation

PROPERTY = "C04"
LEVEL = "model_checking"
HB = "dclab.rtdc_dataset.fmt_hierarchy.base:RTDC_Hierarchy"

N = 6
TMP = "vf_tmp_c04"
# distinct values per event; one feature per level so that windows on a
# level are independent of the windows of other levels
FEATS = ["deform", "area_um", "aspect", "bright_avg"]
VALS = {
    "deform": np.array([0.01, 0.02, 0.03, 0.04, 0.05, 0.06]),
    "area_um": np.array([10.0, 20.0, 30.0, 40.0, 50.0, 60.0]),
    "aspect": np.array([1.1, 1.2, 1.3, 1.4, 1.5, 1.6]),
    "bright_avg": np.array([101., 102., 103., 104., 105., 106.]),
}
# windows as index ranges into the root events [lo, hi]; different windows
# of equal size select *different* events but the *same number*
WINDOWS = {"A": (0, 3), "B": (1, 4), "C": (2, 5), "D": (0, 4)}


def root_data(seed=0):
    rs = np.random.RandomState(seed + 7)
    d = {k: v.copy() for k, v in VALS.items()}
    d["frame"] = np.array([10, 12, 15, 19, 24, 30])
    d["image"] = rs.randint(0, 255, (N, 4, 5)).astype(np.uint8)
    m = np.zeros((N, 4, 5), dtype=bool)
    for i in range(N):
        m[i, 1:3, 1 + i % 2:3 + i % 2] = True
    d["mask"] = m
    d["contour"] = [np.array([[i, 0], [i + 1, 1], [i, 2]]) for i in range(N)]
    d["trace"] = {"fl1_raw": rs.randint(0, 100, (N, 4)).astype(np.int16)}
    return d


class St:
    pass


class HierDriver(explore.Driver):
    name = "hierarchy-history"

    def __init__(self, levels=3, seed=0, noapply=True, manual_ids=(0, 1),
                 root="dict", scratch=None, focus=None):
        # focus="temp": a reduced alphabet (two windows on the root, no
        # manual edits) in which (re-)assigning the temporary feature and
        # the frame-rate change cost no deviation
        self.focus = focus
        self.levels = levels      # number of datasets incl. root
        self.seed = seed
        self.noapply = noapply
        self.manual_ids = manual_ids
        self.root = root
        self.scratch = scratch
        self._rootfile = None

    def config(self):
        return {"levels": self.levels, "seed": self.seed, "root": self.root,
                "focus": self.focus}

    def _root_path(self, data):
        """The hdf5 root is written once per process and opened per state."""
        import os
        from dclab.rtdc_dataset.writer import RTDCWriter
        p = self.scratch / f"c04_root_{os.getpid()}.rtdc"
        if self._rootfile != p or not p.exists():
            with RTDCWriter(p, mode="reset") as hw:
                hw.store_metadata({"experiment": {"sample": "vf",
                                                  "run index": 1},
                                   "imaging": {"frame rate": 1000.0,
                                               "pixel size": 0.34}})
                for k, v in data.items():
                    hw.store_feature(k, v)
            self._rootfile = p
        return p

    def close(self, st):
        if self.root == "hdf5":
            try:
                st.ds[0].close()
            except Exception:
                pass

    def fresh(self):
        import dclab
        from dclab.definitions import feat_logic
        if not feat_logic.feature_exists(TMP):
            dclab.register_temporary_feature(TMP, is_scalar=True)
        st = St()
        st.data = root_data(self.seed)
        if self.root == "hdf5":
            st.ds = [dclab.new_dataset(self._root_path(st.data))]
        else:
            st.ds = [dclab.new_dataset(dict(st.data))]
        st.ds[0].config["imaging"]["frame rate"] = 1000.0
        for _ in range(self.levels - 1):
            st.ds.append(dclab.new_dataset(st.ds[-1]))
        # model
        st.window = [None] * self.levels
        st.excl = [set() for _ in range(self.levels)]
        st.tmp = None               # root-sized array or None
        st.fps = 1000.0
        st.synced = True
        st.err = None
        return st

    # model helpers --------------------------------------------------------
    def root_idx(self, st):
        """Per level: root indices of its events; per level: expected
        filter.all (as array over the level's events)."""
        idx = [np.arange(N)]
        filt = []
        for L in range(self.levels):
            ri = idx[L]
            sel = np.ones(len(ri), bool)
            if st.window[L] is not None:
                lo, hi = WINDOWS[st.window[L]]
                sel &= (ri >= lo) & (ri <= hi)
            sel &= ~np.isin(ri, sorted(st.excl[L]))
            filt.append(sel)
            if L + 1 < self.levels:
                idx.append(ri[sel])
        return idx, filt

    def ops(self, st):
        out = []
        edits = []
        tf = self.focus == "temp"
        deep = self.focus == "deep"     # root windows + deepest exclusions
        for L in range(1 if (tf or deep) else self.levels):
            for w in (("A", None) if tf else ("A", "B", "C", "D", None)):
                if st.window[L] != w:
                    edits.append((["range", L, w], 0))
        if not deep:
            edits.append((["fps"], 0 if tf else 1))
        if st.synced:
            idx, filt = self.root_idx(st)
            for L in range(self.levels):
                ri = idx[L]
                if deep and L != self.levels - 1:
                    continue
                for i in (() if tf else self.manual_ids):
                    if i < len(ri):
                        r = int(ri[i])
                        if r in st.excl[L]:
                            # re-inclusion: only while another visible
                            # exclusion remains (see DESIGN: dclab documents
                            # that it keeps hidden ids when manual is all
                            # True, so that case is left unconstrained)
                            vis = [x for x in st.excl[L] if x in ri]
                            if len(vis) < 2:
                                continue
                        edits.append((["manual", L, i], 0))
                if len(ri) and not deep:
                    for v in (0, 1):
                        edits.append((["temp", L, v], 0 if tf else 1))
        for op, dev in edits:
            out.append((op + ["refresh"], dev))
            if self.noapply:
                out.append((op + ["norefresh"], dev + 1))
        if not st.synced:
            out.append((["nop", "refresh"], 0))
        return out

    def apply(self, st, op):
        kind = op[0]
        ds = st.ds
        st.err = None
        try:
            if kind == "range":
                _, L, w = op[:3]
                feat = FEATS[L]
                cfg = ds[L].config["filtering"]
                if w is None:
                    cfg.pop(feat + " min", None)
                    cfg.pop(feat + " max", None)
                else:
                    lo, hi = WINDOWS[w]
                    cfg[feat + " min"] = float(VALS[feat][lo]) * 0.999
                    cfg[feat + " max"] = float(VALS[feat][hi]) * 1.001
                st.window[L] = w
                st.synced = False
            elif kind == "manual":
                _, L, i = op[:3]
                idx, _ = self.root_idx(st)
                r = int(idx[L][i])
                ds[L].filter.manual[i] = not ds[L].filter.manual[i]
                if r in st.excl[L]:
                    st.excl[L].discard(r)
                else:
                    st.excl[L].add(r)
                st.synced = False
            elif kind == "temp":
                import dclab
                _, L, v = op[:3]
                idx, _ = self.root_idx(st)
                ri = idx[L]
                vals = 100.0 * v + ri + 0.5
                dclab.set_temporary_feature(ds[L], TMP, vals)
                tmp = np.full(N, np.nan)
                tmp[ri] = vals
                st.tmp = tmp
                st.synced = False
            elif kind == "fps":
                st.fps = 3000.0 - st.fps
                ds[0].config["imaging"]["frame rate"] = st.fps
                st.synced = False
            elif kind == "nop":
                pass
            else:
                raise ValueError(op)
            if op[-1] == "refresh":
                ds[-1].rejuvenate()
                st.synced = True
                # like a user looking at the data after every refresh: fill
                # the per-child feature caches, so that a later refresh has
                # something stale to forget
                self._touch(st)
        except Exception as e:
            st.err = f"{op}: {type(e).__name__}: {e}"
            return ("exc", type(e).__name__)
        if st.synced:
            return tuple(len(d) for d in ds) + tuple(
                tuple(d.filter.all.tolist()) for d in ds)
        return None

    def _touch(self, st):
        for d in st.ds[1:]:
            if len(d) == 0:
                continue
            try:
                np.asarray(d[FEATS[0]][:])
                np.asarray(d["time"][:])
                d["image"][0]
                d["mask"][len(d) - 1]
                d["contour"][0]
                d["trace"]["fl1_raw"][0]
                d[FEATS[1]].mean()
                if st.tmp is not None:
                    np.asarray(d[TMP][:])
            except Exception:
                pass      # reported by check()

    def check(self, st):
        out = []

        def bad(where, symptom, detail, **tags):
            out.append(violation(where, symptom, None, detail, tags))
        if st.err:
            bad(HB, "exception", st.err, exc=st.err.split(": ")[1])
            return out
        if not st.synced:
            return out
        idx, filt = self.root_idx(st)
        data = st.data
        import dclab
        ref = dclab.new_dataset(dict(data))
        ref.config["imaging"]["frame rate"] = st.fps
        ref_time = np.asarray(ref["time"])
        for L in range(self.levels):
            ds = st.ds[L]
            ri = idx[L]
            if len(ds) != len(ri):
                bad(HB + ".__len__", "wrong-length",
                    f"level {L}: len={len(ds)} expected {len(ri)} "
                    f"(root ids {ri.tolist()})", level=min(L, 2))
                return out
            got_all = np.array(ds.filter.all)
            if not np.array_equal(got_all, filt[L]):
                man = np.array(ds.filter.manual)
                exp_man = ~np.isin(ri, sorted(st.excl[L]))
                sym = "wrong-manual" if not np.array_equal(man, exp_man) \
                    else "wrong-selection"
                bad("dclab.rtdc_dataset.fmt_hierarchy.hfilter:"
                    "HierarchyFilter", sym,
                    f"level {L}: filter.all={got_all.astype(int).tolist()} "
                    f"expected {filt[L].astype(int).tolist()}; manual="
                    f"{man.astype(int).tolist()} expected "
                    f"{exp_man.astype(int).tolist()}; root ids {ri.tolist()}"
                    f" excluded-by-user {sorted(st.excl[L])}",
                    level=min(L, 2))
            if L == 0 or len(ri) == 0:
                continue
            def probe(kind, fn):
                """Run one comparison; an exception while reading is a
                violation of its own."""
                try:
                    ok = fn()
                except Exception as e:
                    bad(HB + ".__getitem__", "exception",
                        f"level {L} {kind}: {type(e).__name__}: {e}",
                        exc=type(e).__name__, kind=kind)
                    return
                if not ok:
                    bad(HB + ".__getitem__", "wrong-feature-data",
                        f"level {L} {kind} differs from the root data at "
                        f"root ids {ri.tolist()}", kind=kind)
            # the first read of one feature converts it to another dtype;
            # the plain reads that follow still show the root's values
            probe("scalar-as-float32", lambda: gen.arrays_equal(
                np.asarray(ds[FEATS[0]], dtype=np.float32),
                np.asarray(data[FEATS[0]])[ri].astype(np.float32)))
            for feat in FEATS + ["frame"]:
                probe("scalar", lambda f=feat: gen.arrays_equal(
                    ds[f][:], data[f][ri]))
            # what the child's feature objects say about themselves
            probe("describe", lambda: all(
                len(ds[f]) == len(ri) and tuple(ds[f].shape) == np.shape(
                    np.asarray(data[f])[ri]) and gen.arrays_equal(
                    np.asarray(ds[f]), np.asarray(data[f])[ri])
                for f in (FEATS[1], "image", "mask")) and len(
                ds["contour"]) == len(ri) and len(
                ds["trace"]["fl1_raw"]) == len(ri) and tuple(
                ds["trace"]["fl1_raw"].shape) == np.shape(
                data["trace"]["fl1_raw"][ri]))
            exp_time = ref_time[ri]
            probe("computed", lambda: np.allclose(
                ds["time"][:], exp_time, rtol=1e-12, atol=0))
            for feat in ("image", "mask"):
                probe(feat, lambda f=feat: gen.arrays_equal(
                    ds[f][:], data[f][ri]) and all(
                    gen.arrays_equal(ds[f][i], data[f][ri[i]])
                    for i in range(len(ri))) and gen.arrays_equal(
                    ds[f][-1], data[f][ri[-1]]))
            probe("contour", lambda: all(
                gen.arrays_equal(ds["contour"][i], data["contour"][ri[i]])
                for i in range(len(ri))))
            probe("trace", lambda: gen.arrays_equal(
                ds["trace"]["fl1_raw"][:], data["trace"]["fl1_raw"][ri])
                and gen.arrays_equal(ds["trace"]["fl1_raw"][len(ri) - 1],
                                     data["trace"]["fl1_raw"][ri[-1]]))
            if st.tmp is not None:
                try:
                    got = ds[TMP][:]
                    if not gen.arrays_equal(got, st.tmp[ri]):
                        bad(HB + ".__getitem__", "wrong-feature-data",
                            f"level {L} temporary feature: {got} != "
                            f"{st.tmp[ri]}", kind="temporary")
                except Exception as e:
                    bad(HB + ".__getitem__", "exception",
                        f"temp: {type(e).__name__}: {e}",
                        exc=type(e).__name__)
        return out

    def canon(self, st):
        def cf(d):
            # the parent identifier is unique per instance, not state
            return tuple(sorted((k, repr(v)) for k, v in dict(d).items()
                                if k != "hierarchy parent"))
        parts = []
        try:
            for L, ds in enumerate(st.ds):
                flt = ds.filter
                item = [cf(ds.config["filtering"]), cf(flt._old_config),
                        tuple(sorted((k, v.tobytes())
                                     for k, v in flt._box_filters.items())),
                        tuple(sorted((k, v.tobytes())
                                     for k, v in flt._array_props.items())),
                        flt.manual.tobytes()]
                if L:
                    item += [tuple(flt._man_root_ids), flt._parent_hash,
                             tuple(sorted(k for k in ds._events
                                          if k != "index")),
                             ds._length]
                parts.append(tuple(item))
            ut = st.ds[0]._usertemp
            parts.append(tuple(sorted((k, np.asarray(v).tobytes())
                                      for k, v in ut.items())))
        except AttributeError:
            parts = [explore.unique_token()]
        return (tuple(parts), st.fps, st.synced,
                tuple(st.window), tuple(tuple(sorted(e)) for e in st.excl))


def _late_child_cases(seed):
    """Children that are looked at while out of step with their parent:
    created without an initial refresh, or queried between a parent edit
    and the refresh.  After the refresh of the youngest member everything
    agrees with the parent's filtered events again."""
    import dclab
    from dclab.rtdc_dataset.fmt_hierarchy import RTDC_Hierarchy
    out = []
    data = root_data(seed)
    n = len(data["deform"])
    feat = FEATS[0]
    vals = np.asarray(data[feat])
    order = np.sort(vals)

    def verdict(child, parent, scenario):
        sel = np.flatnonzero(parent.filter.all)
        case = {"kind": "late-child", "scenario": scenario, "seed": seed}
        try:
            ok = len(child) == len(sel) and gen.arrays_equal(
                child[feat][:], vals[sel]) and \
                child.filter.all.size == len(sel)
            detail = (f"len(child)={len(child)}, parent selects "
                      f"{len(sel)}, filter array {child.filter.all.size}")
            gch = dclab.new_dataset(child)
            ok = ok and len(gch) == int(child.filter.all.sum())
        except BaseException as e:
            ok = False
            detail = f"{type(e).__name__}: {e}"
        if not ok:
            out.append(violation(
                HB + ".apply_filter", "wrong-length", case,
                f"{scenario}: {detail}", {"scenario": scenario}))
    for touch_len in (False, True):
        for second_edit in (False, True):
            # A: no refresh at creation
            par = dclab.new_dataset(dict(root_data(seed)))
            par.config["filtering"][feat + " min"] = float(order[2])
            par.config["filtering"][feat + " max"] = float(order[-1]) + 1
            par.apply_filter()
            ch = RTDC_Hierarchy(par, apply_filter=False)
            if touch_len:
                try:
                    len(ch)
                except BaseException:
                    pass
            if second_edit:
                par.config["filtering"][feat + " min"] = float(order[4])
            ch.rejuvenate()
            verdict(ch, par, f"created-without-refresh touch_len="
                    f"{touch_len} second_edit={second_edit}")
            # B: queried between a parent-only apply and the refresh
            par = dclab.new_dataset(dict(root_data(seed)))
            ch = dclab.new_dataset(par)
            par.config["filtering"][feat + " min"] = float(order[3])
            par.config["filtering"][feat + " max"] = float(order[-1]) + 1
            par.apply_filter()
            if touch_len:
                try:
                    len(ch)
                    ch[feat][:]
                except BaseException:
                    pass
            if second_edit:
                par.config["filtering"].pop(feat + " min")
                par.config["filtering"].pop(feat + " max")
            try:
                ch.rejuvenate()
            except BaseException as e:
                out.append(violation(
                    HB + ".apply_filter", "exception",
                    {"kind": "late-child", "scenario": "B", "seed": seed},
                    f"refresh after a parent-only apply (touch_len="
                    f"{touch_len}, reverted={second_edit}): "
                    f"{type(e).__name__}: {e}",
                    {"scenario": "parent-applied-first",
                     "exc": type(e).__name__}))
                continue
            verdict(ch, par, f"parent-applied-first touch_len={touch_len} "
                    f"reverted={second_edit}")
    return out


def run(ctx):
    parts = []
    viols = []
    hd = dict(root="hdf5", scratch=ctx.scratch, seed=ctx.seed)
    if ctx.quick:
        plan = [("3-levels", HierDriver(levels=3, seed=ctx.seed), 3, 1),
                ("hdf5-root", HierDriver(levels=3, noapply=False,
                                         manual_ids=(0,), **hd), 3, 0),
                ("3-levels-refresh-only",
                 HierDriver(levels=3, seed=ctx.seed, noapply=False,
                            manual_ids=(0,)), 4, 0),
                ("3-levels-temp-focus",
                 HierDriver(levels=3, seed=ctx.seed, noapply=False,
                            focus="temp"), 3, 0),
                # depth of the hierarchy: root windows and exclusions in
                # the great-grandchild only
                ("5-levels-deep-focus",
                 HierDriver(levels=5, seed=ctx.seed, noapply=False,
                            manual_ids=(0, 1), focus="deep"), 4, 0)]
    else:
        plan = [("3-levels", HierDriver(levels=3, seed=ctx.seed), 4, 2),
                ("hdf5-root", HierDriver(levels=3, noapply=False, **hd),
                 4, 1),
                ("3-levels-refresh-only",
                 HierDriver(levels=3, seed=ctx.seed, noapply=False), 5, 1),
                ("4-levels-refresh-only",
                 HierDriver(levels=4, seed=ctx.seed, noapply=False,
                            manual_ids=(0,)), 4, 0),
                ("3-levels-temp-focus",
                 HierDriver(levels=3, seed=ctx.seed, noapply=True,
                            focus="temp"), 4, 1),
                ("5-levels-deep-focus",
                 HierDriver(levels=5, seed=ctx.seed, noapply=True,
                            manual_ids=(0, 1, 2), focus="deep"), 5, 1)]
    for name, drv, depth, dev in plan:
        stats, vs = explore.bfs(drv, max_depth=depth, max_dev=dev,
                                log=ctx.log)
        parts.append((name, stats))
        viols.extend(vs)
    viols.extend(_late_child_cases(ctx.seed))
    cov = explore.merge_stats(parts)
    cov["late_child_cases"] = 8
    cov["rule"] = ("BFS over histories of range edits / manual exclusions / "
                   "temporary features on every level, root frame-rate "
                   "change, each followed (dev 0) or not (dev +1) by a "
                   "refresh of the youngest; windows of equal size select "
                   "different events; states merged on per-level filter "
                   "internals")
    vac = None if cov["distinct_observations"] > 20 else "few observations"
    return {"level": LEVEL, "coverage": cov, "violations": viols,
            "vacuous": vac,
            "assumptions": [
                "manual exclusions and temporary features are edited only in "
                "synchronised states (right after a refresh)",
                "re-including an event is only explored while another "
                "visible exclusion remains on that level",
                "6 root events, 3-4 levels"]}


def replay(case, ctx):
    if case.get("kind") == "late-child":
        return _late_child_cases(case["seed"])
    c = case["config"]
    drv = HierDriver(levels=c["levels"], seed=c["seed"],
                     root=c.get("root", "dict"), scratch=ctx.scratch,
                     focus=c.get("focus"))
    return explore.replay(drv, case)
