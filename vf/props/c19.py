"""C19 -- remote range-cached access returns the bytes of the resource.

Engine E1 on the real HTTPFile over an in-memory RFC-7233 host: all
seek/tell/read histories up to a depth for a grid of (length, chunk size,
cache capacity, server flavour); plus RTDC_HTTP vs RTDC_HDF5 on generated
files.
"""
import os

import numpy as np

from .. import explore, fakehttp, gen, par
from ..runner import violation

PROPERTY = "C19"
LEVEL = "model_checking"
URL = "http://vf.example/res.bin"
WHERE = "dclab.http_utils:HTTPFile"


def blob_for(length):
    # distinct byte at every position modulo 251 (prime): misplaced bytes show
    return bytes((7 + 3 * i) % 251 for i in range(length))


class St:
    pass


class HTTPDriver(explore.Driver):
    name = "httpfile"

    def __init__(self, length, cs, keep, flavour="rfc", past_eof=True):
        self.L, self.cs, self.keep, self.flavour = length, cs, keep, flavour
        self.past_eof = past_eof
        self.blob = blob_for(length)
        # flavour "s3": dclab's S3File (its own header parsing and range
        # download) on a stand-in for the boto3 object
        self.where = (WHERE if flavour != "s3"
                      else "dclab.rtdc_dataset.fmt_s3:S3File")

    def config(self):
        return {"length": self.L, "chunk_size": self.cs,
                "keep_chunks": self.keep, "flavour": self.flavour}

    def fresh(self):
        from dclab import http_utils
        st = St()
        st.host = fakehttp.FakeHost(
            "rfc" if self.flavour == "s3" else self.flavour)
        # one URL per configuration: a state must not depend on what was
        # served under the same URL earlier in this process (that is the
        # subject of _reopen_case)
        url = URL.replace("res.bin", "res-%d-%d-%d-%s.bin" % (
            self.L, self.cs, self.keep, self.flavour))
        st.host.add(url, self.blob)
        st.ctx = fakehttp.installed(st.host)
        st.ctx.__enter__()
        if self.flavour == "s3":
            st.f = fakehttp.stub_s3file(url, self.blob, self.cs, self.keep)
        else:
            st.f = http_utils.HTTPFile(url, chunk_size=self.cs,
                                       keep_chunks=self.keep)
        # the fake host stays installed for the life of the state (every
        # request the file object ever makes goes to it, also lazy ones)
        st.pos = 0          # model position
        st.last = None      # (kind, args, got, expected)
        st.err = None
        st.tell = 0
        return st

    def close(self, st):
        try:
            st.ctx.__exit__(None, None, None)
        except Exception:
            pass

    def ops(self, st):
        L, cs = self.L, self.cs
        out = []
        for x in sorted({0, 1, cs - 1, cs, cs + 1, L - cs, L - 1, L}):
            if 0 <= x <= L and x != st.pos:
                out.append((["seek_set", x], 0))
        for d in (-1, cs):
            if 0 <= st.pos + d <= L:
                out.append((["seek_cur", d], 0))
        for d in sorted({-1, -cs}):
            if 0 <= L + d <= L:
                out.append((["seek_end", d], 0))
        out.append((["tell"], 0))
        ns = {0, 1, cs - 1, cs, cs + 1, 2 * cs + 1, L - st.pos}
        for n in sorted(ns):
            if n >= 0 and st.pos + n <= L:
                out.append((["read", n], 0))
        # "everything up to the end": no argument, -1, None
        for how in ("noarg", "minus1", "none"):
            out.append((["read_all", how], 0))
        if self.past_eof:
            out.append((["read", L - st.pos + 1], 1))
            out.append((["read", L - st.pos + cs + 1], 1))
        return out

    def apply(self, st, op):
        f = st.f
        kind = op[0]
        st.last = None
        st.err = None
        try:
            if kind == "seek_set":
                if op[1] % 2:
                    f.seek(op[1], os.SEEK_SET)
                else:
                    f.seek(op[1])           # whence defaults to SEEK_SET
                st.pos = op[1]
            elif kind == "seek_cur":
                f.seek(op[1], os.SEEK_CUR)
                st.pos += op[1]
            elif kind == "seek_end":
                f.seek(op[1], os.SEEK_END)
                st.pos = self.L + op[1]
            elif kind == "tell":
                pass
            elif kind == "read":
                n = op[1]
                exp = self.blob[st.pos:st.pos + n]
                got = f.read(n)
                st.last = (n, st.pos, bytes(got), exp)
                st.pos = min(st.pos + n, self.L)
            elif kind == "read_all":
                exp = self.blob[st.pos:]
                got = {"noarg": lambda: f.read(), "minus1": lambda: f.read(-1),
                       "none": lambda: f.read(None)}[op[1]]()
                st.last = (self.L - st.pos, st.pos, bytes(got), exp)
                st.pos = self.L
            got_pos = f.tell()
            # file-object semantics: a read that is cut short at the end of
            # the resource leaves the position at the end (a later relative
            # seek / read refers to it)
        except Exception as e:
            st.err = f"{type(e).__name__}: {e}"
            return ("exc", type(e).__name__)
        st.tell = got_pos
        return (kind, st.last[2] if st.last else got_pos)

    def check(self, st):
        out = []
        if st.err:
            out.append(violation(self.where, "exception", None, st.err,
                                 {"exc": st.err.split(":")[0]}))
            return out
        if st.last:
            n, pos, got, exp = st.last
            if got != exp:
                eof = "past-eof" if pos + n > self.L else (
                    "to-eof" if pos + n == self.L else "inside")
                out.append(violation(
                    self.where + ".read", "wrong-bytes", None,
                    f"read({n}) at {pos} of L={self.L} cs={self.cs}: got "
                    f"{got.hex()} expected {exp.hex()}", {"range": eof}))
        if st.tell != st.pos:
            out.append(violation(self.where + ".tell", "wrong-position", None,
                                 f"tell()={st.tell} expected {st.pos}"))
        cache = st.f.cache
        total = sum(len(v) for v in cache.values())
        if len(cache) > self.keep or total > self.keep * self.cs:
            out.append(violation(
                self.where + ".get_cache_chunk", "cache-bound-exceeded", None,
                f"cache holds {len(cache)} entries / {total} bytes; "
                f"keep_chunks={self.keep} chunk_size={self.cs} "
                f"(max {self.keep * self.cs} bytes)",
                {"what": "entries" if len(cache) > self.keep else "bytes"}))
        return out

    def canon(self, st):
        f = st.f
        try:
            priv = (f._pos, tuple((k, bytes(v)) for k, v in f.cache.items()),
                    f._len)
        except AttributeError:
            priv = explore.unique_token()
        return (st.pos, priv)


def grid(ctx):
    cfgs = []
    css = (4, 5) if ctx.quick else (3, 4, 5, 8)
    for cs in css:
        lengths = {1, cs - 1, cs, cs + 1, 2 * cs, 2 * cs + 1, 3 * cs - 1}
        if not ctx.quick:
            lengths |= {3 * cs, 4 * cs, 4 * cs + 1, 5 * cs - 1}
        for L in sorted(lengths):
            for keep in ((1, 2, 3) if ctx.quick else (1, 2, 3, 4)):
                cfgs.append((L, cs, keep, "rfc"))
            if not ctx.quick or cs == 4:
                cfgs.append((L, cs, 2, "strict416"))
                cfgs.append((L, cs, 2, "empty206"))
            for keep in ((1, 3) if ctx.quick else (1, 2, 3)):
                cfgs.append((L, cs, keep, "s3"))
    return cfgs


def _run_cfg(args):
    cfg, depth, dev = args
    drv = HTTPDriver(*cfg)
    stats, vs = explore.bfs(drv, max_depth=depth, max_dev=dev, workers=1)
    return cfg, stats, vs


# -- dataset level -----------------------------------------------------------

def _ds_case(args):
    """Serve a generated .rtdc and compare RTDC_HTTP with RTDC_HDF5."""
    import functools
    import dclab
    from dclab import http_utils
    from dclab.rtdc_dataset import fmt_http
    n, cs_kind, keep, seed, scratch = args[:5]
    via = args[5] if len(args) > 5 else "http"
    gen.register_user_features()
    path = scratch / f"c19_{via}_{n}_{cs_kind}_{keep}.rtdc"
    ev = gen.make_events(n, seed=seed)
    with gen.chunk_bytes(100):
        gen.write_rtdc(path, ev, logs={"vf-log": ["line 1", "line µ 2"]},
                       tables={"vf-tab": np.rec.fromarrays(
                           [np.arange(3.), np.arange(3.) * 2],
                           names=["a", "b"])})
    blob = path.read_bytes()
    L = len(blob)
    if cs_kind == "divisor":
        cs = next(d for d in range(1500, L) if L % d == 0) if any(
            L % d == 0 for d in range(1500, L)) else L
    else:
        cs = int(cs_kind)
    host = fakehttp.FakeHost("rfc")
    url = "http://vf.example/data.rtdc"
    if via == "s3":
        url = "http://vf-s3.example/vf-bucket/data-%d.rtdc" % n
    host.add(url, blob)
    out = []
    tags = {"cs": cs_kind, "keep": keep}
    if via == "s3":
        tags["via"] = "s3"
    old = fmt_http.HTTPFile
    fmt_http.HTTPFile = functools.partial(http_utils.HTTPFile, chunk_size=cs,
                                          keep_chunks=keep)
    from dclab.rtdc_dataset import fmt_s3
    old_init = http_utils.HTTPFile.__init__

    def small_chunk_init(self, url, chunk_size=2**18, keep_chunks=200):
        # S3File has no chunk parameters of its own
        if isinstance(self, fmt_s3.S3File):
            chunk_size, keep_chunks = cs, keep
        old_init(self, url, chunk_size=chunk_size, keep_chunks=keep_chunks)
    nfeat = 0
    WDS = ("dclab.rtdc_dataset.fmt_s3:RTDC_S3" if via == "s3"
           else "dclab.rtdc_dataset.fmt_http:RTDC_HTTP")
    try:
        with fakehttp.installed(host, s3=(via == "s3")):
            try:
                if via == "s3":
                    http_utils.HTTPFile.__init__ = small_chunk_init
                    opener = fmt_s3.RTDC_S3
                else:
                    opener = fmt_http.RTDC_HTTP
                with dclab.new_dataset(path) as dl, opener(url) as dh:
                    if len(dh) != len(dl):
                        out.append(violation(
                            WDS,
                            "wrong-length", None,
                            f"{len(dh)} != {len(dl)}", tags))
                    if sorted(dh.features_innate) != sorted(
                            dl.features_innate):
                        out.append(violation(
                            WDS,
                            "wrong-features", None,
                            f"{dh.features_innate} != {dl.features_innate}",
                            tags))
                    for feat in dl.features_innate:
                        nfeat += 1
                        if feat == "trace":
                            ok = all(gen.arrays_equal(dh[feat][t][:],
                                                      dl[feat][t][:])
                                     for t in dl[feat].keys())
                        elif feat == "contour":
                            ok = all(gen.arrays_equal(dh[feat][i],
                                                      dl[feat][i])
                                     for i in range(len(dl)))
                        else:
                            ok = gen.arrays_equal(dh[feat][:], dl[feat][:])
                        if not ok:
                            out.append(violation(
                                WDS,
                                "wrong-feature-data", None, feat,
                                dict(tags, feat=feat)))
                    if dict(dh.config.as_dict() if hasattr(
                            dh.config, "as_dict") else
                            {s: dict(dh.config[s]) for s in dh.config}) != \
                            {s: dict(dl.config[s]) for s in dl.config}:
                        a = {s: dict(dh.config[s]) for s in dh.config}
                        b = {s: dict(dl.config[s]) for s in dl.config}
                        if repr(a) != repr(b):
                            out.append(violation(
                                WDS,
                                "wrong-metadata", None, f"{a} != {b}", tags))
                    if {k: dh.logs[k] for k in dh.logs} != {
                            k: dl.logs[k] for k in dl.logs}:
                        out.append(violation(
                            WDS,
                            "wrong-logs", None, "", tags))
                    for k in dl.tables:
                        if not np.array_equal(dh.tables[k][:],
                                              dl.tables[k][:]):
                            out.append(violation(
                                WDS,
                                "wrong-tables", None, k, tags))
                    if sorted(dh.tables) != sorted(dl.tables):
                        out.append(violation(
                            WDS,
                            "wrong-tables", None, "keys", tags))
                    cache = (dh._s3file if via == "s3" else dh._fhttp).cache
                    total = sum(len(v) for v in cache.values())
                    if len(cache) > keep or total > keep * cs:
                        out.append(violation(
                            WHERE + ".get_cache_chunk",
                            "cache-bound-exceeded", None,
                            f"dataset access: {len(cache)} entries / {total} "
                            f"bytes with keep={keep} cs={cs} L={L}",
                            {"what": "entries" if len(cache) > keep
                             else "bytes"}))
            except Exception as e:
                out.append(violation(
                    WDS, "exception",
                    None, f"{type(e).__name__}: {e}",
                    dict(tags, exc=type(e).__name__)))
    finally:
        fmt_http.HTTPFile = old
        http_utils.HTTPFile.__init__ = old_init
        path.unlink()
    for v in out:
        v["case"] = {"kind": "dataset", "n": n, "cs_kind": cs_kind,
                     "keep": keep, "seed": seed, "via": via}
    return {"requests": len(host.log), "L": L, "cs": cs, "feats": nfeat}, out


def _reopen_case(args):
    """The resource behind one URL is replaced (longer, shorter, same
    length / other bytes) and opened again with a new HTTPFile: every read
    must show the resource as it is now."""
    cs, keep = args
    from dclab import http_utils
    out = []
    cnt = 0
    url = "http://vf.example/reopen-%d-%d.bin" % (cs, keep)
    gens = [blob_for(3 * cs + 5), blob_for(5 * cs + 1), blob_for(cs + 2),
            bytes(reversed(blob_for(cs + 2))), blob_for(2 * cs)]
    host = fakehttp.FakeHost("rfc")
    with fakehttp.installed(host):
        for gi, blob in enumerate(gens):
            host.add(url, blob)
            L = len(blob)
            f = http_utils.HTTPFile(url, chunk_size=cs, keep_chunks=keep)
            plan = [("end", -3, 3), ("set", 0, 4), ("set", cs - 1, 3),
                    ("set", max(L - cs - 1, 0), -1), ("end", -L, 2),
                    ("set", L - 1, 5)]
            for whence, off, nread in plan:
                cnt += 1
                try:
                    if whence == "end":
                        f.seek(off, os.SEEK_END)
                        pos = L + off
                    else:
                        f.seek(off)
                        pos = off
                    got = f.read(nread)
                    exp = blob[pos:] if nread < 0 else blob[pos:pos + nread]
                    tell = f.tell()
                    ok = bytes(got) == exp and tell == pos + len(exp)
                    detail = (f"generation {gi} (L={L}): seek({whence},"
                              f"{off}) read({nread}) -> {bytes(got).hex()} "
                              f"tell {tell}; expected {exp.hex()} tell "
                              f"{pos + len(exp)}")
                except Exception as e:
                    ok = False
                    detail = f"generation {gi}: {type(e).__name__}: {e}"
                if not ok:
                    out.append(violation(
                        WHERE, "stale-after-reopen",
                        {"kind": "reopen", "cs": cs, "keep": keep},
                        detail, {"generation": min(gi, 1)}))
                    break
            f.close()
    return cnt, out


def _s3_boto_case(L):
    """dclab's S3File built the regular way (boto3 session, resource and
    object) over a botocore transport that is answered from memory, with
    the chunk geometry S3File really uses (2**18 bytes): reads around the
    chunk boundaries and the end of the object; availability probe."""
    from dclab.rtdc_dataset import fmt_s3
    W = "dclab.rtdc_dataset.fmt_s3:S3File"
    out = []
    cnt = 0
    cs = 2 ** 18
    blob = blob_for(L)
    host = fakehttp.FakeHost("rfc")
    url = "http://vf-s3.example/vf-bucket/obj-%d" % L
    host.add(url, blob)
    case = {"kind": "s3-boto", "L": L}
    with fakehttp.installed(host, s3=True):
        try:
            f = fmt_s3.S3File("vf-bucket/obj-%d" % L,
                              "http://vf-s3.example:80")
            plan = [("set", 0, 4), ("set", cs - 2, 4), ("set", cs, 1),
                    ("set", cs - 1, cs + 2), ("end", -3, 3), ("end", -1, 5),
                    ("cur", -2, 2), ("set", max(L - cs - 1, 0), -1),
                    ("cur", 0, 0), ("set", 2 * cs - 1, 2), ("set", 1, 0),
                    ("cur", 0, 3), ("end", 0, 1)]
            pos = 0
            for whence, off, nread in plan:
                new = {"set": off, "cur": pos + off, "end": L + off}[whence]
                if not 0 <= new <= L:
                    continue
                cnt += 1
                f.seek(off, {"set": os.SEEK_SET, "cur": os.SEEK_CUR,
                             "end": os.SEEK_END}[whence])
                got = bytes(f.read(nread))
                exp = blob[new:] if nread < 0 else blob[new:new + nread]
                pos = new + len(exp)
                tell = f.tell()
                if got != exp or tell != pos:
                    out.append(violation(
                        W + ".read", "wrong-bytes", case,
                        f"L={L}: seek({whence},{off}) read({nread}) -> "
                        f"{len(got)} bytes {got[:8].hex()}.. tell {tell}; "
                        f"expected {len(exp)} bytes {exp[:8].hex()}.. tell "
                        f"{pos}", {"via": "boto"}))
                    break
            if f.length != L:
                out.append(violation(W, "wrong-length", case,
                                     f"{f.length} != {L}", {"via": "boto"}))
            total = sum(len(v) for v in f.cache.values())
            if total > f.max_cache_size:
                out.append(violation(W, "cache-bound-exceeded", case,
                                     f"{total} bytes", {"via": "boto"}))
            f.close()
            for u, want in ((url, True),
                            (url + "-missing", False),
                            (url.replace("vf-s3", "nohost"), False)):
                cnt += 1
                got = fmt_s3.is_s3_object_available(u)
                if bool(got) != want:
                    out.append(violation(
                        "dclab.rtdc_dataset.fmt_s3:is_s3_object_available",
                        "wrong-availability", case,
                        f"{u}: {got}, expected {want}", {"via": "boto"}))
        except Exception as e:
            out.append(violation(W, "exception", case,
                                 f"{type(e).__name__}: {e}",
                                 {"exc": type(e).__name__, "via": "boto"}))
    return cnt, out


def run(ctx):
    depth = 10 if ctx.quick else 14
    dev = 1
    cfgs = grid(ctx)
    results = par.pmap(_run_cfg, [(c, depth, dev) for c in cfgs])
    parts = []
    viols = []
    for cfg, stats, vs in results:
        parts.append(("L%d-cs%d-keep%d-%s" % cfg, stats))
        viols.extend(vs)
    cov = explore.merge_stats(parts)
    cov["samples"] = cov["samples"][:6]
    cov["configurations"] = len(cfgs)
    # dataset level
    ds_items = []
    for n in ((3, 11) if ctx.quick else (1, 3, 11, 23)):
        for cs_kind in ("1024", "4096", "divisor"):
            for keep in ((2, 5) if ctx.quick else (1, 2, 5, 50)):
                ds_items.append((n, cs_kind, keep, ctx.seed, ctx.scratch))
    for n in ((3, 11) if ctx.quick else (1, 3, 11, 23)):
        for cs_kind in (("1024", "divisor") if ctx.quick
                        else ("1024", "4096", "divisor")):
            for keep in ((2,) if ctx.quick else (1, 2, 5)):
                ds_items.append((n, cs_kind, keep, ctx.seed, ctx.scratch,
                                 "s3"))
    ds_res = par.pmap(_ds_case, ds_items)
    cs = 2 ** 18
    boto = par.pmap(_s3_boto_case,
                    [1, cs - 1, cs, cs + 1, 2 * cs, 2 * cs + 1]
                    + ([] if ctx.quick else [3 * cs - 1, 3 * cs]))
    cov["s3_boto_operations"] = sum(n for n, _ in boto)
    for _, vs in boto:
        viols.extend(vs)
    for info, vs in ds_res:
        viols.extend(vs)
    ro = par.pmap(_reopen_case, [(cs, keep) for cs in (4, 7, 16)
                                 for keep in (1, 2, 3)])
    cov["reopen_reads"] = sum(n for n, _ in ro)
    for _, vs in ro:
        viols.extend(vs)
    cov["dataset_cases"] = len(ds_items)
    cov["dataset_requests"] = sum(i["requests"] for i, _ in ds_res)
    cov["dataset_sample"] = ds_res[0][0]
    cov["rule"] = ("per (length, chunk size, keep_chunks, server flavour): "
                   "BFS over seek/tell/read histories on the real HTTPFile; "
                   "reads beyond EOF are deviations; bytes, position and "
                   "cache bound checked in every state")
    vac = None
    if cov["distinct_observations"] < 20:
        vac = "too few distinct observations"
    return {"level": LEVEL, "coverage": cov, "violations": viols,
            "vacuous": vac,
            "assumptions": [
                "the in-memory host answers range requests as RFC 7233 "
                "prescribes (invalid range => 200 + full body); flavours "
                "strict416 / empty206 model deviating servers",
                "read(n) with n >= 0 only (a length)",
                "a read cut short at EOF leaves the position at EOF (io semantics)"]}


def replay(case, ctx):
    if case.get("kind") == "dataset":
        _, vs = _ds_case((case["n"], case["cs_kind"], case["keep"],
                          case["seed"], ctx.scratch,
                          case.get("via", "http")))
        return vs
    if case.get("kind") == "s3-boto":
        return _s3_boto_case(case["L"])[1]
    if case.get("kind") == "reopen":
        return _reopen_case((case["cs"], case["keep"]))[1]
    c = case["config"]
    drv = HTTPDriver(c["length"], c["chunk_size"], c["keep_chunks"],
                     c["flavour"])
    return explore.replay(drv, case)
