"""C17 -- cached computations are indistinguishable from fresh ones.

E1 drivers (BFS over call histories, cache capacity lowered to 3):
* memoised functions (kde_gauss, kde_histogram, kde_multivariate,
  downsample_grid) with adversarially similar arguments + in-place mutation
  of returned arrays;
* hashfile with explicit-mtime file modifications;
* LazyContourList(max_events=2) index sequences.
E3: read / mutate / read of feature arrays through the dataset interface.
"""
import hashlib
import itertools
import os

import numpy as np

from .. import explore, gen, par
from ..runner import violation

PROPERTY = "C17"
LEVEL = "model_checking"


def _cache_obj(fn):
    """Return the dclab.cached.Cache instance wrapped inside fn."""
    from dclab.cached import Cache
    if isinstance(fn, Cache):
        return fn
    for cell in (fn.__closure__ or ()):
        try:
            c = cell.cell_contents
        except ValueError:
            continue
        if isinstance(c, Cache):
            return c
    raise RuntimeError(f"no Cache inside {fn}")


def arg_pool():
    """(function name, args, kwargs, label); adversarially similar members."""
    base = np.array([0.11, 0.52, 0.23, 0.94, 0.35, 0.76, 0.17, 0.68,
                     0.49, 0.80, 0.31, 0.62])
    x6, y6 = base[:6].copy(), base[6:].copy()
    # same bytes, other dtype/shape
    x32, y32 = x6.view(np.float32).copy(), y6.view(np.float32).copy()
    # same byte stream split at a different position
    xa, ya = base[:4].copy(), base[4:8].copy()
    xo_a, yo_a = base[8:10].copy(), base[10:12].copy()
    xb, yb = base[:3].copy(), base[3:6].copy()
    xo_b, yo_b = base[6:9].copy(), base[9:12].copy()
    big = np.repeat(base, 2)
    big[1::2] += 0.5
    pool = []
    for fn in ("kde_gauss", "kde_histogram", "kde_multivariate"):
        pool += [
            (fn, (x6, y6), {}, "f64x6"),
            (fn, (xa, ya, xo_a, yo_a), {}, "split4+2"),
            (fn, (xb, yb, xo_b, yo_b), {}, "split3+3"),
        ]
    pool += [
        ("kde_gauss", (xa, ya), {"xout": xo_a, "yout": yo_a}, "kw"),
        ("kde_gauss", (big[::2][:6], big[1::2][:6]), {}, "strided"),
        ("kde_histogram", (x6, y6), {"bins": (5, 6)}, "bins"),
        ("downsample_grid", (x6, y6, 3), {}, "f64x6-3"),
        ("downsample_grid", (x32, y32, 3), {}, "f32x12-3 (same bytes)"),
        ("downsample_grid", (x6, y6), {"samples": 3}, "kw-samples"),
        ("downsample_grid", (x6, y6, 3, False, True), {}, "ret_idx"),
        ("downsample_grid", (big[::2][:6], big[1::2][:6], 3), {}, "strided"),
        # same values bound to different parameters
        ("downsample_grid", (x6, y6, 3), {"remove_invalid": True},
         "kw remove_invalid=True"),
        ("downsample_grid", (x6, y6, 3), {"ret_idx": True},
         "kw ret_idx=True"),
        ("downsample_grid", (x6, y6, 3, True), {}, "pos remove_invalid=True"),
        ("downsample_grid", (x6, y6), {"samples": 3, "ret_idx": True},
         "kw samples+ret_idx"),
        ("downsample_grid", (x6, y6, 1, 0), {}, "samples=1,remove_invalid=0"),
        ("downsample_grid", (x6, y6, 10), {}, "samples=10"),
    ]
    # the same bytes read in the other byte order (other values)
    le_x = np.array([513, 1027, 260, 2050, 771, 1285], dtype="<u2")
    le_y = np.array([258, 1540, 515, 1029, 2056, 774], dtype="<u2")
    be_x, be_y = le_x.view(">u2"), le_y.view(">u2")
    # the same memory seen with swapped axes (a view, no copy)
    X2 = (np.arange(16, dtype=float).reshape(4, 4) * 1.5 + 0.25)
    Y2 = X2 * 0.7 + np.arange(4)[:, None]
    pool += [
        ("downsample_grid", (X2, Y2, 5), {}, "2-D"),
        ("downsample_grid", (X2.T, Y2.T, 5), {}, "2-D transposed view"),
    ]
    # the same bytes as a 0-d array and as a one-element array
    pool += [
        ("kde_histogram", (x6, y6), {"bins": np.array(7)}, "bins 0-d"),
        ("kde_histogram", (x6, y6), {"bins": np.array([7])}, "bins (1,)"),
        ("downsample_grid", (x6, y6, np.array(3)), {}, "samples 0-d"),
        ("downsample_grid", (x6, y6, np.array([3])), {}, "samples (1,)"),
    ]
    pool += [
        ("downsample_grid", (le_x, le_y, 3), {}, "u2 little endian"),
        ("downsample_grid", (be_x, be_y, 3), {}, "u2 big endian, same bytes"),
        ("kde_histogram", (le_x, le_y), {}, "u2 little endian"),
        ("kde_histogram", (be_x, be_y), {}, "u2 big endian, same bytes"),
    ]
    return pool


def _as_list(res):
    if isinstance(res, tuple):
        return [np.array(r) for r in res]
    return [np.array(res)]


def _same(a, b):
    if len(a) != len(b):
        return False
    return all(x.shape == y.shape and x.dtype == y.dtype
               and np.array_equal(x, y, equal_nan=(x.dtype.kind == "f"))
               for x, y in zip(a, b))


class St:
    pass


class CacheDriver(explore.Driver):
    name = "cache-calls"

    def __init__(self, subset=None, capacity=3):
        self.pool = arg_pool()
        if subset is not None:
            self.pool = [p for p in self.pool if p[0] in subset]
        self.capacity = capacity

    def config(self):
        return {"capacity": self.capacity,
                "subset": sorted({p[0] for p in self.pool})}

    def _funcs(self):
        from dclab import kde_methods, downsampling
        out = {}
        for nm in ("kde_gauss", "kde_histogram", "kde_multivariate"):
            fn = getattr(kde_methods, nm)
            out[nm] = (fn, kde_methods.ignore_nan_inf(_cache_obj(fn).func))
        dg = downsampling.downsample_grid
        out["downsample_grid"] = (dg, _cache_obj(dg).func)
        return out

    def fresh(self):
        from dclab import cached
        st = St()
        st.old_max = cached.MAX_SIZE
        cached.MAX_SIZE = self.capacity
        cached.Cache._cache.clear()
        del cached.Cache._keys[:]
        st.funcs = self._funcs()
        st.last = None      # (pool idx, result list or exception)
        st.lastraw = None
        st.bad = None
        return st

    def close(self, st):
        from dclab import cached
        cached.MAX_SIZE = st.old_max
        cached.Cache._cache.clear()
        del cached.Cache._keys[:]

    def ops(self, st):
        out = [(["call", i], 0) for i in range(len(self.pool))]
        if st.lastraw is not None:
            out.append((["mutate"], 0))
        return out

    def apply(self, st, op):
        st.bad = None
        if op[0] == "mutate":
            n = 0
            for r in (st.lastraw if isinstance(st.lastraw, tuple)
                      else (st.lastraw,)):
                if isinstance(r, np.ndarray) and r.flags.writeable and r.size:
                    if r.dtype == bool:
                        r[...] = ~r
                    else:
                        r[...] = r + 1
                    n += 1
            return ("mutated", n)
        i = op[1]
        fname, args, kwargs, label = self.pool[i]
        cached_fn, raw_fn = st.funcs[fname]
        # (copies, so that a cached result can never alias the pool; views
        # whose memory layout is the point are passed as they are)
        keep = "strided" in label or "view" in label
        cargs = tuple(a.copy() if isinstance(a, np.ndarray) and not keep
                      else a for a in args)
        try:
            exp = ("val", _as_list(raw_fn(*args, **kwargs)))
        except Exception as e:
            exp = ("exc", type(e).__name__)
        try:
            raw = cached_fn(*cargs, **kwargs)
            got = ("val", _as_list(raw))
            st.lastraw = raw
        except Exception as e:
            got = ("exc", type(e).__name__ + ": " + str(e)[:100])
            st.lastraw = None
        st.last = (i, got, exp)
        if got[0] != exp[0] or (got[0] == "val" and not _same(got[1], exp[1])
                                ) or (got[0] == "exc" and
                                      got[1].split(":")[0] != exp[1]):
            st.bad = (fname, label, got, exp)
        return (i, got[0], [g.tobytes() for g in got[1]]
                if got[0] == "val" else got[1])

    def check(self, st):
        if not st.bad:
            return []
        fname, label, got, exp = st.bad
        sym = "exception" if got[0] == "exc" else "wrong-cached-result"
        return [violation(
            "dclab.cached:Cache.__call__", sym, None,
            f"{fname}({label}): cached call gave {got!r:.300} but the "
            f"undecorated function gives {exp!r:.300}",
            {"func": fname, "args": label})]

    def canon(self, st):
        from dclab import cached
        try:
            keys = tuple(cached.Cache._keys)
            vals = tuple(hashlib.sha1(b"".join(
                x.tobytes() for x in _as_list(cached.Cache._cache[k])
            )).hexdigest() for k in keys)
        except Exception:
            return explore.unique_token()
        return (keys, vals, st.lastraw is not None and id(st.lastraw) in
                [id(v) for v in cached.Cache._cache.values()])


# -- hashfile -----------------------------------------------------------------

CONTENTS = [b"A" * 50, b"B" * 50, b"A" * 49 + b"C", b"A" * 70]


class HashfileDriver(explore.Driver):
    name = "hashfile"

    def __init__(self, scratch):
        self.scratch = scratch

    def fresh(self):
        from dclab import util
        util.hashfile.cache_clear()
        st = St()
        st.dir = self.scratch / f"c17hf_{os.getpid()}"
        st.dir.mkdir(exist_ok=True)
        st.paths = [st.dir / "a.bin", st.dir / "b.bin"]
        st.content = [0, 1]
        st.mtime = [1_600_000_000_000_000_000, 1_600_000_000_000_000_000]
        for p, c, m in zip(st.paths, st.content, st.mtime):
            p.write_bytes(CONTENTS[c])
            os.utime(p, ns=(m, m))
        st.bad = None
        return st

    def close(self, st):
        for p in st.paths:
            if p.exists():
                p.unlink()

    def ops(self, st):
        out = []
        for f in (0, 1):
            out.append((["hash", f, 65536, 0], 0))
            out.append((["hash", f, 16, 2], 0))
            for c in range(len(CONTENTS)):
                if c != st.content[f]:
                    # every modification advances mtime by 1 ns (the
                    # cache's documented key is (mtime_ns, size))
                    out.append((["write", f, c], 0))
        out.append((["swap"], 1))
        return out

    def apply(self, st, op):
        from dclab import util
        st.bad = None
        if op[0] == "write":
            _, f, c = op
            st.content[f] = c
            st.mtime[f] += 1
            st.paths[f].write_bytes(CONTENTS[c])
            os.utime(st.paths[f], ns=(st.mtime[f], st.mtime[f]))
            return ("w",)
        if op[0] == "swap":
            # exchange the two files by renaming (paths keep their mtimes)
            tmp = st.dir / "tmp.bin"
            st.paths[0].rename(tmp)
            st.paths[1].rename(st.paths[0])
            tmp.rename(st.paths[1])
            st.content.reverse()
            st.mtime.reverse()
            for f in (0, 1):
                st.mtime[f] += 1
                os.utime(st.paths[f], ns=(st.mtime[f], st.mtime[f]))
            return ("swap",)
        _, f, bs, cnt = op
        got = util.hashfile(st.paths[f], blocksize=bs, count=cnt)
        data = CONTENTS[st.content[f]]
        exp = hashlib.md5(data[:bs * cnt] if cnt else data).hexdigest()
        if got != exp:
            st.bad = (op, got, exp)
        return got

    def check(self, st):
        if st.bad:
            return [violation("dclab.util:hashfile", "stale-hash", None,
                              f"{st.bad}")]
        return []

    def canon(self, st):
        from dclab import util
        info = util.hashfile.cache_info()
        return (tuple(st.content), tuple(st.mtime), info.currsize)


# -- lazy contour list ----------------------------------------------------------

class ContourDriver(explore.Driver):
    name = "lazy-contours"

    def __init__(self, max_events=2):
        self.max_events = max_events

    def config(self):
        return {"max_events": self.max_events}

    def fresh(self):
        from dclab.features.contour import LazyContourList
        st = St()
        masks = np.zeros((4, 8, 8), dtype=bool)
        masks[0, 2:5, 2:6] = True
        masks[1, 1:4, 3:5] = True
        masks[2, 3:7, 1:4] = True
        masks[3, 2:4, 2:4] = True
        masks[3, 4, 3] = True
        st.masks = masks
        st.lcl = LazyContourList(masks, max_events=self.max_events)
        st.bad = None
        return st

    def ops(self, st):
        out = [(["get", i], 0) for i in range(4)]
        out += [(["get", -1], 1), (["slice", 1, 4], 1), (["mutate"], 1),
                # a failing access (index past the end) and the plain
                # iteration protocol, which ends with exactly that failure
                (["get", 4], 1), (["iter"], 1)]
        return out

    def apply(self, st, op):
        from dclab.features.contour import get_contour
        st.bad = None
        if op[0] == "mutate":
            if st.lcl.contours:
                c = st.lcl.contours[-1]
                if c.flags.writeable:
                    c += 1
            return ("m",)
        if op[0] == "get" and op[1] >= len(st.masks):
            try:
                st.lcl[op[1]]
            except Exception as e:
                return ("exc", type(e).__name__)
            st.bad = (op, "no exception for an index past the end", None)
            return ("noexc",)
        if op[0] == "iter":
            idx = list(range(len(st.masks)))
            got = [c for c in st.lcl]
        elif op[0] == "get":
            idx = [op[1]]
            got = [st.lcl[op[1]]]
        else:
            idx = list(range(op[1], op[2]))
            got = st.lcl[op[1]:op[2]]
        exp = [get_contour(st.masks[i]) for i in idx]
        if len(got) != len(exp) or any(
                not np.array_equal(g, e) for g, e in zip(got, exp)):
            st.bad = (op, [g.tolist() for g in got], [e.tolist() for e in exp])
        return tuple(g.tobytes() for g in got)

    def check(self, st):
        if st.bad:
            return [violation("dclab.features.contour:LazyContourList",
                              "wrong-contour", None, f"{st.bad!r:.600}")]
        return []

    def canon(self, st):
        try:
            return (tuple(st.lcl.indices),
                    tuple(c.tobytes() for c in st.lcl.contours))
        except AttributeError:
            return explore.unique_token()


# -- dataset interface: read / mutate / read -------------------------------------

PATS = ["[:]", "asarray", "asarray_i32", "asarray_f32", "[1:4]", "[2]",
        "minmax"]


def _read(ds, feat, access):
    if access == "[:]":
        return ds[feat][:]
    if access == "asarray":
        return np.asarray(ds[feat])
    if access == "asarray_i32":
        return np.asarray(ds[feat], dtype=np.int32)
    if access == "asarray_f32":
        return np.asarray(ds[feat], dtype=np.float32)
    if access == "[1:4]":
        return ds[feat][1:4]
    if access == "[2]":
        return ds[feat][2]
    obj = ds[feat]
    if hasattr(obj, "min") and not isinstance(obj, np.ndarray):
        return np.array([obj.min(), obj.max()])
    return np.array([np.nanmin(obj), np.nanmax(obj)])


def _truth(arr, access):
    if access in ("[:]", "asarray"):
        return arr
    if access == "asarray_i32":
        return arr.astype(np.int32)
    if access == "asarray_f32":
        return arr.astype(np.float32)
    if access == "[1:4]":
        return arr[1:4]
    if access == "[2]":
        return arr[2]
    return np.array([np.nanmin(arr), np.nanmax(arr)])


def _ds_case(args):
    """Every ordered pair of access patterns on a fresh dataset object: the
    first result is modified in place (if writable), the second access must
    still return the stored data."""
    kind, seed, scratch = args
    import dclab
    gen.register_user_features()
    out = []
    n = 6
    ev = gen.make_events(n, seed=seed, special=False)
    path = scratch / f"c17_{kind}_{os.getpid()}.rtdc"
    gen.write_rtdc(path, ev)
    mapping = np.array([4, 1, 1, 5], dtype=np.uint64)
    thr = float(np.sort(ev["area_um"])[1])
    ref = scratch / f"c17_{kind}_{os.getpid()}_ref.rtdc"
    if kind in ("basin", "basin-mapped"):
        from dclab.rtdc_dataset.writer import RTDCWriter
        with RTDCWriter(ref, mode="reset") as hw:
            hw.store_metadata(gen.complete_meta(n))
            if kind == "basin":
                hw.store_feature("index_online", ev["index_online"])
                hw.store_basin("b", "file", "hdf5", [str(path)],
                               basin_feats=["deform", "area_um"])
            else:
                hw.store_feature("index_online",
                                 ev["index_online"][mapping.astype(int)])
                hw.store_basin("b", "file", "hdf5", [str(path)],
                               basin_feats=["deform", "area_um"],
                               basin_map=mapping)

    def open_ds():
        opened = []
        if kind == "hdf5":
            ds = dclab.new_dataset(path)
            opened.append(ds)
            sel = np.arange(n)
        elif kind == "dict":
            ds = dclab.new_dataset({k: ev[k].copy() for k in
                                    ("deform", "area_um", "bright_avg")})
            sel = np.arange(n)
        elif kind == "child":
            par_ = dclab.new_dataset(path)
            opened.append(par_)
            par_.config["filtering"]["area_um min"] = thr
            par_.config["filtering"]["area_um max"] = 1e9
            ds = dclab.new_dataset(par_)
            sel = np.flatnonzero(ev["area_um"] >= thr)
        else:
            ds = dclab.new_dataset(ref)
            opened.append(ds)
            sel = mapping.astype(int) if kind == "basin-mapped" \
                else np.arange(n)
        return ds, opened, sel
    try:
        for feat in ("deform", "area_um"):
            for a, b in itertools.product(PATS, repeat=2):
                ds, opened, sel = open_ds()
                try:
                    truth = ev[feat][sel]
                    case = {"kind": "dataset", "ds": kind, "seed": seed}
                    where = (f"dclab.rtdc_dataset:"
                             f"{type(ds[feat]).__name__}.__getitem__")
                    first = _read(ds, feat, a)
                    if not np.array_equal(np.asarray(first),
                                          np.asarray(_truth(truth, a)),
                                          equal_nan=True):
                        out.append(violation(
                            where, "wrong-data", case,
                            f"{kind} ds['{feat}'] {a}: {np.asarray(first)} "
                            f"instead of {_truth(truth, a)}",
                            {"ds": kind, "access": a}))
                    if isinstance(first, np.ndarray) and first.ndim:
                        try:
                            first[...] = first + 1000
                        except ValueError:
                            pass      # read-only result: fine
                    second = _read(ds, feat, b)
                    if not np.array_equal(np.asarray(second),
                                          np.asarray(_truth(truth, b)),
                                          equal_nan=True):
                        out.append(violation(
                            where, "earlier-access-changes-result", case,
                            f"{kind} ds['{feat}']: access {a} (result "
                            f"modified in place if writable) followed by "
                            f"{b} gives {np.asarray(second)} instead of "
                            f"{_truth(truth, b)}",
                            {"ds": kind, "first": a, "second": b}))
                finally:
                    for d in opened:
                        d.close()
        # cached arrays follow their source: data that change between two
        # reads (temporary feature replaced, frame rate edited) -- with the
        # documented refresh for hierarchy children -- are read anew
        if kind in ("hdf5", "dict", "child"):
            from dclab.definitions import feat_logic
            if not feat_logic.feature_exists("vf_c17_tmp"):
                dclab.register_temporary_feature("vf_c17_tmp")
            for a, b in itertools.product(PATS, repeat=2):
                ds, opened, sel = open_ds()
                try:
                    root = opened[0] if kind == "child" else ds
                    nroot = len(root)
                    case = {"kind": "dataset", "ds": kind, "seed": seed}
                    where = "dclab.rtdc_dataset.core:RTDCBase.__getitem__"
                    for step, vals in enumerate(
                            (np.arange(nroot) * 1.5,
                             np.arange(nroot) * 1.5 + 100)):
                        dclab.set_temporary_feature(root, "vf_c17_tmp", vals)
                        if kind == "child":
                            ds.rejuvenate()
                        got = _read(ds, "vf_c17_tmp", (a, b)[step])
                        want = _truth(vals[sel], (a, b)[step])
                        if not np.array_equal(np.asarray(got),
                                              np.asarray(want)):
                            out.append(violation(
                                where, "stale-after-source-change", case,
                                f"{kind}: temporary feature "
                                f"{'set' if step == 0 else 'replaced'}, "
                                f"read by {(a, b)[step]}: "
                                f"{np.asarray(got)} instead of {want}",
                                {"ds": kind, "what": "temporary"}))
                            break
                finally:
                    for d in opened:
                        d.close()
    finally:
        for p in scratch.glob(f"c17_{kind}_{os.getpid()}*.rtdc"):
            p.unlink()
    return out


def _large_case(args):
    """Arrays far larger than any block size a hashing scheme might use,
    equal except for their last (or middle, or first) elements."""
    fname, = args
    from dclab import cached
    fn, raw = CacheDriver()._funcs()[fname]
    cached.Cache.clear_cache()
    out = []
    n = 70001
    rs = np.random.RandomState(4)
    x0 = rs.uniform(0, 1, n)
    y0 = rs.uniform(0, 1, n)
    variants = [("base", slice(0, 0)), ("tail", slice(n - 50, n)),
                ("middle", slice(n // 2, n // 2 + 50)),
                ("head", slice(0, 50)), ("last-one", slice(n - 1, n))]
    cnt = 0
    for rounds in range(2):
        for name, sl in variants:
            x = x0.copy()
            x[sl] = x[sl] * 0.5 + 0.25
            a = (x, y0, 500) if fname == "downsample_grid" else (x, y0)
            cnt += 1
            got = fn(*a)
            want = raw(*[v.copy() if isinstance(v, np.ndarray) else v
                         for v in a])
            if not _same(_as_list(got), _as_list(want)):
                out.append(violation(
                    "dclab.cached:Cache.__call__", "cached-differs-from-fresh",
                    {"kind": "large", "func": fname},
                    f"{fname} on {n} points, variant '{name}' (round "
                    f"{rounds}): the memoised call differs from a fresh "
                    f"evaluation", {"func": fname, "large": True}))
                cached.Cache.clear_cache()
                return cnt, out
    cached.Cache.clear_cache()
    return cnt, out


def _long_case(args):
    """One long call sequence at the *default* capacity: more distinct
    argument sets than the cache holds, early ones revisited after their
    eviction, the last result modified in place after every call."""
    fname, = args
    from dclab import cached
    fn, raw = CacheDriver()._funcs()[fname]
    cached.Cache.clear_cache()
    cap = cached.MAX_SIZE
    base = np.array([0.11, 0.52, 0.23, 0.94, 0.35, 0.76, 0.17, 0.68,
                     0.49, 0.80, 0.31, 0.62])
    ndist = cap + 30

    def argsfor(k):
        x = base[:6] * (1 + k) + 0.001 * k
        y = base[6:] + 0.01 * k
        if fname == "downsample_grid":
            return (x, y, 3), {"ret_idx": True}
        return (x, y), {}
    seq = list(range(ndist)) + list(range(40)) + list(range(ndist))[::-1] \
        + [0, cap, 1, cap + 1, 0, 0]
    out = []
    for pos, k in enumerate(seq):
        a, kw = argsfor(k)
        got = fn(*a, **kw)
        want = raw(*[v.copy() if isinstance(v, np.ndarray) else v
                     for v in a], **kw)
        if not _same(_as_list(got), _as_list(want)):
            out.append(violation(
                "dclab.cached:Cache.__call__", "cached-differs-from-fresh",
                {"kind": "long", "func": fname},
                f"{fname}: call {pos} of the long sequence (argument set "
                f"{k}, capacity {cap}) differs from a fresh evaluation",
                {"func": fname, "long": True}))
            break
        for g in (got if isinstance(got, tuple) else (got,)):
            if isinstance(g, np.ndarray) and g.size and g.flags.writeable:
                g[...] = 0 if g.dtype != bool else ~g
    cached.Cache.clear_cache()
    return len(seq), out


def _bfs(args):
    which, depth, dev, scratch = args
    if which == "hashfile":
        drv = HashfileDriver(scratch)
    elif which == "contour":
        drv = ContourDriver()
    elif which == "cache-all":
        drv = CacheDriver()
    else:
        drv = CacheDriver(subset=(which,))
    stats, vs = explore.bfs(drv, max_depth=depth, max_dev=dev, workers=1)
    return which, stats, vs


def run(ctx):
    d = 3 if ctx.quick else 4
    plans = [("kde_gauss", d + 1, 0), ("kde_histogram", d + 1, 0),
             ("kde_multivariate", d, 0), ("downsample_grid", d + 1, 0),
             ("cache-all", d, 0), ("hashfile", d + 1, 1),
             ("contour", d + 2, 1)]
    # cheap plans run side by side; the large call-sequence spaces are
    # explored one after the other with the BFS itself fanned out
    small = [pl for pl in plans if pl[0] in ("hashfile", "contour")]
    res = par.pmap(_bfs, [(w, dep, dev, ctx.scratch) for w, dep, dev in small])
    for w, dep, dev in plans:
        if (w, dep, dev) in small:
            continue
        drv = CacheDriver() if w == "cache-all" else CacheDriver(subset=(w,))
        stats, vs = explore.bfs(drv, max_depth=dep, max_dev=dev)
        res.append((w, stats, vs))
    parts, viols = [], []
    for which, stats, vs in res:
        parts.append((which, stats))
        viols.extend(vs)
    cov = explore.merge_stats(parts)
    items = [(k, ctx.seed, ctx.scratch)
             for k in ("hdf5", "dict", "child", "basin", "basin-mapped")]
    for vs in par.pmap(_ds_case, items):
        viols.extend(vs)
    cov["dataset_access_pair_cases"] = len(items) * 2 * len(PATS) ** 2
    lres = par.pmap(_long_case, [(f,) for f in (
        "kde_gauss", "kde_histogram", "kde_multivariate",
        "downsample_grid")])
    lres += par.pmap(_large_case, [(f,) for f in (
        "kde_histogram", "downsample_grid")])
    cov["long_sequence_calls"] = sum(n for n, _ in lres)
    for _, vs in lres:
        viols.extend(vs)
    cov["rule"] = ("BFS over call sequences of the memoised functions with "
                   "cache capacity 3 and a pool of adversarially similar "
                   "arguments (same bytes/other dtype, byte stream split "
                   "differently, keyword vs positional, strided views), "
                   "interleaved with in-place mutation of the last result; "
                   "hashfile with 1-ns mtime steps; LazyContourList("
                   "max_events=2); one 306-call sequence per function at the "
                   "default capacity (130 distinct argument sets, early "
                   "ones revisited after eviction); oracle = undecorated "
                   "function")
    return {"level": LEVEL, "coverage": cov, "violations": viols,
            "vacuous": None if cov["distinct_observations"] > 10 else "few",
            "assumptions": [
                "every file modification changes mtime_ns or size (the "
                "documented key of the file-hash cache)",
                "cache capacity lowered to 3 through cached.MAX_SIZE"]}


def replay(case, ctx):
    if case.get("kind") == "large":
        return _large_case((case["func"],))[1]
    if case.get("kind") == "long":
        return _long_case((case["func"],))[1]
    if case.get("kind") == "dataset":
        return _ds_case((case["ds"], case["seed"], ctx.scratch))
    name = case["driver"]
    if name == "hashfile":
        drv = HashfileDriver(ctx.scratch)
    elif name == "lazy-contours":
        drv = ContourDriver()
    else:
        sub = case["config"].get("subset")
        drv = CacheDriver(subset=tuple(sub) if sub else None)
    return explore.replay(drv, case)
