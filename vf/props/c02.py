"""C02 -- HDF5/TSV export contains exactly the selected events and features.

E3: source kinds x all filter masks (small N exhaustively; N=11 with selection
sizes straddling the 10-event export chunk) x feature subsets x filtered /
unfiltered x chunk configuration.  Oracle: the generator's own arrays indexed
by np.flatnonzero(mask).
"""
import itertools
import os
import zipfile

import h5py
import numpy as np

from .. import gen, par
from ..boot import REPO
from ..runner import violation

PROPERTY = "C02"
LEVEL = "exploration"
EX = "dclab.rtdc_dataset.export:Export.hdf5"
ALLF = ["deform", "area_um", "fl1_max", "frame", "image", "image_bg", "mask",
        "contour", "trace", gen.USER_FEAT]
KINDS = ["dict", "hdf5", "child-dict", "child-hdf5", "basin",
         "grandchild-hdf5", "basin-perm", "basin-dup", "basin-sup",
         "basin-sub"]


def masks_for(n, quick):
    if n <= 6:
        return [np.array(b, bool) for b in itertools.product([0, 1],
                                                             repeat=n)]
    out = []
    sizes = (0, 1, n - 2, n - 1, n) if quick else range(n + 1)
    for k in sizes:
        for comb in itertools.combinations(range(n), k):
            m = np.zeros(n, bool)
            m[list(comb)] = True
            out.append(m)
    return out


class Source:
    """Builds a dataset of a given kind; knows the expected arrays."""

    def __init__(self, kind, n, seed, scratch, tag):
        import dclab
        gen.register_user_features()
        self.kind = kind
        self.files = []
        self.keep = []
        ev = gen.make_events(n + 2 if kind.startswith("child") else
                             n + 3 if kind.startswith("grandchild") else
                             # mapped basins holding fewer / more events
                             # than the dataset that refers to them
                             max(2, (n + 1) // 2) if kind == "basin-sup"
                             else n + 3 if kind == "basin-sub" else n,
                             seed=seed)
        self.logs = {"vf-log": ["first line", "second µ line", "trailing blanks   "],
                     # more UTF-8 bytes than characters, > 100 bytes
                     "vf-instrument": ["flow 0.04 µl/s, 23.5 °C " * 4 + "[ok]",
                                       "short"]}
        self.tables = {"vf-tab": np.rec.fromarrays(
            [np.arange(3.0), np.arange(3.0) ** 2], names=["a", "b"])}
        base = scratch / f"c02_{tag}_{os.getpid()}"
        if kind in ("hdf5", "child-hdf5", "basin", "grandchild-hdf5",
                    "basin-perm", "basin-dup", "basin-sup", "basin-sub"):
            p = base.with_suffix(".src.rtdc")
            gen.write_rtdc(p, ev, logs=self.logs, tables=self.tables)
            self.files.append(p)
        if kind == "dict":
            ds = dclab.new_dataset(self._dict(ev))
            self._cfg(ds, len(ev["deform"]))
            self.idx = np.arange(n)
        elif kind == "hdf5":
            ds = dclab.new_dataset(self.files[0])
            self.idx = np.arange(n)
        elif kind.startswith("child"):
            if kind == "child-dict":
                parent = dclab.new_dataset(self._dict(ev))
                self._cfg(parent, n + 2)
            else:
                parent = dclab.new_dataset(self.files[0])
            # parent hides events 1 and n (of n+2)
            parent.filter.manual[[1, n]] = False
            parent.apply_filter()
            self.keep.append(parent)
            ds = dclab.new_dataset(parent)
            self.idx = np.array([i for i in range(n + 2) if i not in (1, n)])
        elif kind == "grandchild-hdf5":
            # root (n+3 events) hides 1 and n; the child hides its event 2;
            # the exported dataset is the child of that child
            root = dclab.new_dataset(self.files[0])
            root.filter.manual[[1, n]] = False
            root.apply_filter()
            child = dclab.new_dataset(root)
            child.filter.manual[2] = False
            child.apply_filter()
            self.keep += [root, child]
            ds = dclab.new_dataset(child)
            vis = [i for i in range(n + 3) if i not in (1, n)]
            del vis[2]
            self.idx = np.array(vis)
        elif kind == "basin":
            from dclab.rtdc_dataset.writer import RTDCWriter
            p2 = base.with_suffix(".ref.rtdc")
            with RTDCWriter(p2, mode="reset") as hw:
                hw.store_metadata(gen.complete_meta(n))
                hw.store_feature("index_online", ev["index_online"])
                hw.store_basin("b", "file", "hdf5", [str(self.files[0])])
                for name, lines in self.logs.items():
                    hw.store_log(name, lines)
                for name, t in self.tables.items():
                    hw.store_table(name, t)
            self.files.append(p2)
            ds = dclab.new_dataset(p2)
            self.idx = np.arange(n)
        elif kind in ("basin-perm", "basin-dup", "basin-sup", "basin-sub"):
            # the events of this dataset are those of the basin in another
            # order (a mapping without / with repeated basin events)
            from dclab.rtdc_dataset.writer import RTDCWriter
            perm = np.argsort(np.sin(np.arange(n) * 2.3 + seed),
                              kind="stable")
            if kind == "basin-dup" and n > 2:
                perm[1] = perm[-1]
            if kind == "basin-sup":
                # every basin event at least once, the later ones again
                perm = perm % max(2, (n + 1) // 2)
            elif kind == "basin-sub":
                perm = np.argsort(np.sin(np.arange(n + 3) * 2.3 + seed),
                                  kind="stable")[1:n + 1]
            p2 = base.with_suffix(".ref.rtdc")
            with RTDCWriter(p2, mode="reset") as hw:
                hw.store_metadata(gen.complete_meta(n))
                hw.store_feature("index_online", ev["index_online"][perm])
                hw.store_basin("b", "file", "hdf5", [str(self.files[0])],
                               basin_map=perm.astype(np.uint64))
                for name, lines in self.logs.items():
                    hw.store_log(name, lines)
                for name, t in self.tables.items():
                    hw.store_table(name, t)
            self.files.append(p2)
            ds = dclab.new_dataset(p2)
            self.idx = np.array(perm)
        self.ds = ds
        self.ev = ev
        # the metadata as they were before any export (an export must not
        # change its source, and later exports are judged against these)
        self.cfg0 = self.snapshot()
        self.has_logs = kind != "dict" and kind != "child-dict"

    def snapshot(self):
        import copy
        return {sec: copy.deepcopy(dict(self.ds.config[sec]))
                for sec in ("experiment", "imaging", "setup", "fluorescence",
                            "user", "online_contour", "online_filter")
                if sec in self.ds.config}

    @staticmethod
    def _dict(ev):
        d = dict(ev)
        d.pop("index", None)
        return d

    @staticmethod
    def _cfg(ds, n):
        meta = gen.complete_meta(n)
        for sec, dd in meta.items():
            for k, v in dd.items():
                ds.config[sec][k] = v
        ds.config["user"]["my key"] = 1.5

    def close(self):
        for d in [self.ds] + self.keep:
            try:
                d.close()
            except Exception:
                pass
        for p in self.files:
            if p.exists():
                p.unlink()


def compare_export(out_path, src, sel_idx, feats, filtered, case, tags):
    """Compare an exported file with the expected selection."""
    import dclab
    vs = []

    def bad(symptom, detail, **t):
        vs.append(violation(EX, symptom, case, detail, dict(tags, **t)))
    ev = src.ev
    ridx = src.idx[sel_idx]       # indices into the generator's arrays
    nsel = len(ridx)
    want = sorted(set(feats))
    with h5py.File(out_path, "r") as h5:
        have = sorted(h5.get("events", {}).keys())
        ec = h5.attrs.get("experiment:event count")
        if nsel and have != want:
            bad("wrong-feature-set", f"file has {have}, requested {want}")
        if nsel == 0:
            if have and any(len(h5["events"][f]) for f in have):
                bad("events-for-empty-selection", f"{have}")
            if ec not in (0, None):
                bad("wrong-event-count", f"empty selection but "
                    f"experiment:event count = {ec}", empty=True)
        elif ec != nsel:
            bad("wrong-event-count", f"{ec} != {nsel}")
        for feat in want:
            if nsel == 0 or feat not in h5.get("events", {}):
                continue
            obj = h5["events"][feat]
            if feat == "trace":
                ok = sorted(obj.keys()) == sorted(ev["trace"].keys()) and all(
                    gen.arrays_equal(obj[t][:], ev["trace"][t][ridx])
                    for t in ev["trace"])
            elif feat == "contour":
                ok = len(obj) == nsel and all(
                    str(i) in obj and gen.arrays_equal(
                        obj[str(i)][:], ev["contour"][r])
                    for i, r in enumerate(ridx))
            elif feat == "mask":
                ok = gen.arrays_equal(obj[:] > 0, ev["mask"][ridx])
            elif feat == "index":
                ok = gen.arrays_equal(obj[:], np.arange(1, nsel + 1))
            else:
                ok = gen.arrays_equal(obj[:], ev[feat][ridx])
            if not ok:
                bad("wrong-feature-data",
                    f"{feat}: exported data differ from source events "
                    f"{ridx.tolist()}", feat=feat)
        # logs and tables
        if case.get("logs") and src.has_logs:
            # "carried over": a log / table of the output whose name
            # contains the source name (dclab prefixes "src_") holds
            # exactly the source's lines / columns
            for name, lines in src.logs.items():
                cands = [k for k in h5.get("logs", {}) if name in k]
                if case.get("prefix") is not None:
                    # the caller chose the prefix: exactly that name
                    cands = [k for k in cands
                             if k == case["prefix"] + name]
                got = [[li.decode("utf-8") if isinstance(li, bytes) else li
                        for li in h5["logs"][k][:]] for k in cands]
                if lines not in got:
                    bad("wrong-logs", f"{name}: {dict(zip(cands, got))} "
                        f"does not contain {lines}")
            for name, t in src.tables.items():
                cands = [k for k in h5.get("tables", {}) if name in k]
                if case.get("prefix") is not None:
                    cands = [k for k in cands
                             if k == case["prefix"] + name]
                if not any(
                        h5["tables"][k].dtype.names == t.dtype.names and all(
                            gen.arrays_equal(np.ravel(h5["tables"][k][c]),
                                             t[c]) for c in t.dtype.names)
                        for k in cands):
                    bad("wrong-tables", f"{name}: candidates {cands}")
    now = src.snapshot()
    if repr(now) != repr(src.cfg0):
        diff = [f"{sec}:{k}" for sec in src.cfg0 for k in src.cfg0[sec]
                if repr(now.get(sec, {}).get(k)) != repr(src.cfg0[sec][k])]
        bad("source-modified", f"the export changed the metadata of its "
            f"source dataset: {diff}")
        for sec in src.cfg0:        # restore, so that one report suffices
            for k, v in src.cfg0[sec].items():
                src.ds.config[sec][k] = v
    if nsel:
        with dclab.new_dataset(out_path) as ds:
            if len(ds) != nsel:
                bad("wrong-length", f"len={len(ds)} != {nsel}")
            ref = src.cfg0
            for sec in ("experiment", "imaging", "setup", "fluorescence",
                        "user"):
                for k, v in dict(ref[sec]).items() if sec in ref else []:
                    got = ds.config[sec].get(k) if sec in ds.config else None
                    if sec == "experiment" and k == "event count":
                        exp_ok = got == nsel
                    elif sec == "experiment" and k == "run identifier" and \
                            filtered:
                        exp_ok = str(got).startswith(str(v))
                    elif sec == "setup" and k == "software version":
                        exp_ok = str(got).startswith(str(v).split(" | ")[0])
                    elif sec == "imaging" and k.startswith("roi size"):
                        exp_ok = True      # rectified from the image shape
                    else:
                        exp_ok = got == v
                    if not exp_ok:
                        bad("wrong-metadata", f"{sec}:{k}: {got!r} != {v!r}",
                            key=f"{sec}:{k}")
    return vs


def _case(args):
    kind, n, seed, mode, quick, scratch = args
    out = []
    stats = {"exports": 0, "nontrivial": 0}
    src = Source(kind, n, seed, scratch, f"{kind}_{n}_{mode}")
    outp = scratch / f"c02_out_{kind}_{n}_{mode}_{os.getpid()}.rtdc"
    try:
        ds = src.ds
        feats_all = [f for f in ALLF if f in ds]

        def do(mask, feats, filtered, logs=False, tiny=True, prefix=None):
            mask = np.asarray(mask, bool)
            case = {"kind": kind, "n": n, "seed": seed, "mode": "single",
                    "mask": mask.astype(int).tolist(), "feats": feats,
                    "filtered": filtered, "logs": logs, "tiny": tiny,
                    "prefix": prefix}
            ds.filter.manual[:] = mask
            ds.apply_filter()
            # a dataset somebody has looked at (lazy caches filled)
            try:
                np.asarray(ds["deform"][:])
                ds["image"][0]
                ds["deform"].mean() if hasattr(ds["deform"], "mean") else 0
            except Exception:
                pass
            sel = np.flatnonzero(mask) if filtered else np.arange(n)
            tags = {"kind": kind, "filtered": filtered,
                    "empty": len(sel) == 0,
                    "chunk_cross": bool(len(sel) >= 10 and tiny)}
            if outp.exists():
                outp.unlink()
            try:
                with gen.chunk_bytes(100 if tiny else 1024 ** 2):
                    kwp = {} if prefix is None else {"meta_prefix": prefix}
                    ds.export.hdf5(outp, features=list(feats),
                                   filtered=filtered, logs=logs, tables=logs,
                                   **kwp)
                vs = compare_export(outp, src, sel, feats, filtered, case,
                                    tags)
            except Exception as e:
                vs = [violation(EX, "exception", case,
                                f"{type(e).__name__}: {e}",
                                dict(tags, exc=type(e).__name__))]
            stats["exports"] += 1
            stats["nontrivial"] += bool(0 < len(sel) < n)
            out.extend(vs)
        if mode == "masks":
            for m in masks_for(n, quick):
                do(m, feats_all, True)
            do(np.ones(n, bool), feats_all, False)
            do(np.zeros(n, bool), feats_all, False)
        elif mode == "subsets":
            pool = [f for f in ("deform", "image", "image_bg", "mask",
                                "contour", "trace", gen.USER_FEAT)
                    if f in ds]
            fam = [np.ones(n, bool), np.zeros(n, bool)]
            one = np.zeros(n, bool)
            one[n // 2] = True
            fam.append(one)
            m = np.ones(n, bool)
            m[0] = False
            fam.append(m)
            for r in range(1, len(pool) + 1):
                for sub in itertools.combinations(pool, r):
                    for mk in (fam if not quick else fam[2:]):
                        do(mk, list(sub), True)
            do(fam[3], pool + [pool[0]], True)          # duplicate name
            do(fam[3], feats_all, True, logs=True)
            do(fam[3], feats_all, True, logs=True, tiny=False)
            # the same output path used again (override): the second
            # export replaces the first; path given without the suffix
            for suffixless in (False, True):
                stem = outp.with_suffix("") if suffixless else outp
                real = outp
                if real.exists():
                    real.unlink()
                first, second = fam[3], fam[2]
                case = {"kind": kind, "n": n, "seed": seed,
                        "mode": "repeat", "suffixless": suffixless}
                try:
                    for mk in (first, second):
                        ds.filter.manual[:] = mk
                        ds.apply_filter()
                        ds.export.hdf5(stem, features=["deform", "area_um"],
                                       filtered=True, override=True)
                    vs = compare_export(
                        real, src, np.flatnonzero(second),
                        ["deform", "area_um"], True,
                        dict(case, logs=False), {"kind": kind,
                                                 "filtered": True,
                                                 "empty": False,
                                                 "repeat": True})
                except Exception as e:
                    vs = [violation(EX, "exception", case,
                                    f"{type(e).__name__}: {e}",
                                    {"kind": kind, "repeat": True,
                                     "exc": type(e).__name__})]
                stats["exports"] += 2
                out.extend(vs)
            # an explicitly requested prefix for the carried-over items
            do(fam[3], feats_all, True, logs=True, prefix="")
            do(fam[3], feats_all, False, logs=True, prefix="orig-")
            do(fam[0], feats_all, False, logs=True, tiny=False)
        elif mode == "tsv":
            out.extend(_tsv(src, n, scratch, kind))
            stats["exports"] += 1
    finally:
        src.close()
        if outp.exists():
            outp.unlink()
    return stats, out


def _tsv(src, n, scratch, kind):
    vs = []
    ds = src.ds
    p = scratch / f"c02_{kind}_{os.getpid()}.tsv"
    feats = ["deform", "area_um", "fl1_max", "frame"]
    for mask in masks_for(n, True) if n <= 6 else []:
        for filtered in (True, False):
            ds.filter.manual[:] = mask
            ds.apply_filter()
            case = {"kind": kind, "n": n, "seed": 0, "mode": "tsv",
                    "mask": mask.astype(int).tolist(), "filtered": filtered}
            sel = np.flatnonzero(mask) if filtered else np.arange(n)
            try:
                ds.export.tsv(p, features=feats, filtered=filtered,
                              override=True)
                rows = [ln.split("\t") for ln in
                        p.read_text(encoding="utf-8-sig").splitlines()
                        if ln and not ln.startswith("#")]
                hdr = [ln for ln in p.read_text(
                    encoding="utf-8-sig").splitlines()
                    if ln.startswith("# ") and "\t" in ln][0][2:].split("\t")
                got = np.array([[float(x) for x in r] for r in rows]).reshape(
                    len(rows), len(feats))
                # the order of the columns is the tool's choice
                if sorted(hdr) != sorted(feats):
                    vs.append(violation(
                        "dclab.rtdc_dataset.export:Export.tsv",
                        "wrong-header", case, f"{hdr}"))
                    continue
                for j, f in enumerate(hdr):
                    exp = np.asarray(src.ev[f][src.idx[sel]], float)
                    col = got[:, j] if len(rows) else np.array([])
                    ok = len(col) == len(exp) and all(
                        (np.isnan(a) and np.isnan(b)) or a == b or
                        abs(a - b) <= 1e-10 * abs(b)
                        for a, b in zip(col, exp))
                    if not ok:
                        vs.append(violation(
                            "dclab.rtdc_dataset.export:Export.tsv",
                            "wrong-values", case,
                            f"{f}: {col.tolist()} != {exp.tolist()}",
                            {"kind": kind, "feat": f,
                             "empty": len(sel) == 0}))
            except Exception as e:
                vs.append(violation(
                    "dclab.rtdc_dataset.export:Export.tsv", "exception", case,
                    f"{type(e).__name__}: {e}",
                    {"kind": kind, "exc": type(e).__name__,
                     "empty": len(sel) == 0}))
    if p.exists():
        p.unlink()
    return vs


def read_tsv(p):
    """(header names, 2-D float array) of a .tsv written by dclab."""
    lines = p.read_text(encoding="utf-8-sig").splitlines()
    hdr = [ln for ln in lines if ln.startswith("# ") and "\t" in ln][
        0][2:].split("\t")
    rows = [ln for ln in lines if ln and not ln.startswith("#")]
    data = np.array([[float(x) for x in r.split("\t")] for r in rows],
                    dtype=float).reshape(len(rows), len(hdr))
    return hdr, data


def bigtsv_violations(scratch, n=25000):
    """A measurement with tens of thousands of events (any row-wise
    chunking of the exporter is crossed several times) under selections
    that are empty in whole stretches."""
    import dclab
    vs = []
    rs = np.random.RandomState(12)
    a = np.round(rs.uniform(10, 500, n), 3)
    d = np.round(rs.uniform(0.001, 0.2, n), 5)
    a[[5, 12000, n - 1]] = np.nan
    ds = dclab.new_dataset({"area_um": a, "deform": d})
    p = scratch / f"c02_big_{os.getpid()}.tsv"
    idx = np.arange(n)
    sels = {"second-half": idx >= 15000, "every-third": idx % 3 == 0,
            "first-100": idx < 100, "all-but-first": idx > 0,
            "last-only": idx == n - 1}
    for name, m in sels.items():
        for filtered in (True, False):
            case = {"mode": "bigtsv", "n": n, "selection": name,
                    "filtered": filtered}
            ds.filter.manual[:] = m
            ds.apply_filter()
            sel = np.flatnonzero(m) if filtered else idx
            try:
                ds.export.tsv(p, features=["area_um", "deform"],
                              filtered=filtered, override=True)
                hdr, got = read_tsv(p)
                ok = sorted(hdr) == ["area_um", "deform"] and \
                    got.shape[0] == len(sel)
                if ok:
                    for j, f in enumerate(hdr):
                        exp = (a if f == "area_um" else d)[sel]
                        ok &= bool(np.allclose(got[:, j], exp, rtol=1e-10,
                                               atol=0, equal_nan=True))
                if not ok:
                    vs.append(violation(
                        "dclab.rtdc_dataset.export:Export.tsv",
                        "wrong-values", case,
                        f"{n} events, selection {name} ({len(sel)} events, "
                        f"filtered={filtered}): file has {got.shape[0]} "
                        f"rows / values differ",
                        {"kind": "big", "feat": "rows", "empty": False}))
            except Exception as e:
                vs.append(violation(
                    "dclab.rtdc_dataset.export:Export.tsv", "exception", case,
                    f"{type(e).__name__}: {e}",
                    {"kind": "big", "exc": type(e).__name__,
                     "empty": False}))
    if p.exists():
        p.unlink()
    return vs


def _bigtsv_case(args):
    scratch, = args
    vs = bigtsv_violations(scratch)
    return {"exports": 10, "nontrivial": 8}, vs


def _tdms_case(args):
    """Non-sliceable sources: .tdms fixtures with structured masks."""
    name, scratch = args
    import dclab
    out = []
    d = scratch / f"c02_tdms_{name}_{os.getpid()}"
    d.mkdir()
    with zipfile.ZipFile(REPO / "tests/data" / name) as z:
        z.extractall(d)
    tdms = [p for p in sorted(d.rglob("*.tdms"))
            if not p.name.endswith("_traces.tdms")][0]
    outp = d / "out.rtdc"
    nexp = 0
    with dclab.new_dataset(tdms) as ds:
        n = len(ds)
        fsets = [[f for f in fs if f in ds.features_innate] for fs in (
            ["area_cvx", "trace"], ["area_cvx", "contour", "mask"],
            ["area_cvx", "image"])]
        fsets = [fs for fs in fsets if len(fs) > 1]
        for feats in fsets:
            lmin = min([len(ds[f]) for f in feats if f != "trace"]
                       + [len(ds["trace"][t]) for t in (
                           ds["trace"].keys() if "trace" in feats else [])])
            fam = []
            for k in (1, 9, 10, 11, 20, 21, lmin - 1):
                if 0 < k <= lmin:
                    m = np.zeros(n, bool)
                    m[np.linspace(0, lmin - 1, k).astype(int)] = True
                    fam.append(m)
            m = np.zeros(n, bool)
            m[::2] = True            # reaches beyond the shortest feature
            fam.append(m)
            for mk in fam:
                ds.filter.manual[:] = mk
                ds.apply_filter()
                sel = np.flatnonzero(mk)
                # documented truncation to the shortest requested feature
                # (these fixtures have fewer images/contours than events)
                sel = sel[sel < lmin]
                case = {"mode": "tdms", "name": name, "feats": feats,
                        "mask": sel.tolist()}
                if outp.exists():
                    outp.unlink()
                with gen.chunk_bytes(100):
                    ds.export.hdf5(outp, features=feats, filtered=True)
                nexp += 1
                with dclab.new_dataset(outp) as do:
                    if len(do) != len(sel):
                        out.append(violation(EX, "wrong-length", case,
                                             f"{len(do)} != {len(sel)}",
                                             {"kind": "tdms"}))
                        continue
                    for f in feats:
                        if f == "trace":
                            ok = all(gen.arrays_equal(
                                do["trace"][t][i], ds["trace"][t][s])
                                for t in ds["trace"].keys()
                                for i, s in enumerate(sel))
                        else:
                            ok = all(gen.arrays_equal(do[f][i], ds[f][s])
                                     for i, s in enumerate(sel))
                        if not ok:
                            out.append(violation(
                                EX, "wrong-feature-data", case,
                                f"tdms {name} {f} for selection "
                                f"{sel.tolist()}",
                                {"kind": "tdms", "feat": f}))
    import shutil
    shutil.rmtree(d, ignore_errors=True)
    return {"exports": nexp, "nontrivial": nexp}, out


def _short_case(args):
    """An hdf5 source whose features have unequal lengths (image shorter
    than the scalars): the export is truncated to the shortest feature."""
    n, short, seed, scratch = args
    import dclab
    gen.register_user_features()
    out = []
    stats = {"exports": 0, "nontrivial": 0}
    p = scratch / f"c02_short_{n}_{os.getpid()}.rtdc"
    outp = scratch / f"c02_short_out_{n}_{os.getpid()}.rtdc"
    ev = gen.make_events(n, seed=seed)
    gen.write_rtdc(p, ev)
    with h5py.File(p, "a") as h5:
        for feat, k in short.items():
            h5["events"][feat].resize(k, axis=0)
    lmin = min(short.values())

    class S:
        snapshot = Source.snapshot
    src = S()
    src.ev, src.idx, src.has_logs = ev, np.arange(n), False
    src.logs, src.tables = {}, {}
    feats = ["deform", "area_um"] + sorted(short)
    masks = [np.ones(n, bool), np.arange(n) < n - 2, np.arange(n) % 2 == 0,
             np.arange(n) >= lmin]
    try:
        with dclab.new_dataset(p) as ds:
            src.ds = ds
            src.cfg0 = src.snapshot()
            for mi, m in enumerate(masks):
                for filtered in (True, False):
                    ds.filter.manual[:] = m
                    ds.apply_filter()
                    sel = np.flatnonzero(m) if filtered else np.arange(n)
                    sel = sel[sel < lmin]
                    case = {"kind": "hdf5-short", "n": n, "seed": seed,
                            "mode": "short", "short": short, "mask": mi,
                            "filtered": filtered, "feats": feats}
                    tags = {"kind": "hdf5-short", "filtered": filtered,
                            "empty": len(sel) == 0,
                            "full_filter": bool(m.all())}
                    if outp.exists():
                        outp.unlink()
                    try:
                        ds.export.hdf5(outp, features=feats,
                                       filtered=filtered)
                        out.extend(compare_export(outp, src, sel, feats,
                                                  filtered, case, tags))
                    except Exception as e:
                        out.append(violation(
                            EX, "exception", case,
                            f"{type(e).__name__}: {e}",
                            dict(tags, exc=type(e).__name__)))
                    stats["exports"] += 1
                    stats["nontrivial"] += 1
    finally:
        for q in (p, outp):
            if q.exists():
                q.unlink()
    return stats, out


def run(ctx):
    scratch = ctx.scratch
    items = []
    for kind in KINDS:
        for n in ((5, 11) if ctx.quick else (3, 6, 11)):
            items.append((kind, n, ctx.seed, "masks", ctx.quick, scratch))
        items.append((kind, 4, ctx.seed, "subsets", ctx.quick, scratch))
        items.append((kind, 12, ctx.seed, "subsets", True, scratch))
        items.append((kind, 5, ctx.seed, "tsv", ctx.quick, scratch))
    if ctx.thorough:
        for kind in ("hdf5", "child-hdf5"):
            items.append((kind, 23, ctx.seed, "subsets", True, scratch))
    res = par.pmap(_case, items)
    res += par.pmap(_short_case, [
        (12, {"image": 7}, ctx.seed, scratch),
        (12, {"image": 9, "mask": 5}, ctx.seed, scratch),
        (6, {"image_bg": 1}, ctx.seed, scratch)])
    names = ["fmt-tdms_fl-image_2016.zip"] + (
        [] if ctx.quick else ["fmt-tdms_minimal_2016.zip"])
    res += par.pmap(_tdms_case, [(nm, scratch) for nm in names])
    res += par.pmap(_bigtsv_case, [(scratch,)])
    viols = []
    ex = nt = 0
    for st, vs in res:
        ex += st["exports"]
        nt += st["nontrivial"]
        viols.extend(vs)
    cov = {"evaluations": ex, "distinct_nontrivial": nt,
           "rule": "one case = (source kind, N, filter mask, feature list, "
                   "filtered?, chunk config); masks: all 2^N for N<=6, for "
                   "N=11 all masks of selection size 0,1,9,10,11 (quick) / "
                   "all sizes (thorough); non-trivial = proper non-empty "
                   "selection",
           "source_kinds": KINDS + ["tdms"],
           "samples": [{"kind": i[0], "n": i[1], "mode": i[3]}
                       for i in (items[0], items[3], items[-1])],
           "exhaustive": True}
    # one large input (30000 events) through this property's entry points
    from .. import big
    viols = list(viols) + big.violations("C02", ctx.scratch)
    cov["big_input_events"] = big.N
    return {"level": LEVEL, "coverage": cov, "violations": viols,
            "assumptions": ["tsv compared to 1e-10 relative",
                            "N <= 23; 10-event export chunks via "
                            "writer.CHUNK_SIZE_BYTES"]}


def replay(case, ctx):
    if case.get("kind") == "big":
        from .. import big
        return big.violations("C02", ctx.scratch)
    if case.get("mode") == "repeat":
        _, vs = _case((case["kind"], case["n"], case["seed"], "subsets",
                       True, ctx.scratch))
        return [v for v in vs if v["case"].get("mode") == "repeat"
                and v["case"].get("suffixless") == case["suffixless"]]
    if case.get("mode") == "bigtsv":
        return [v for v in bigtsv_violations(ctx.scratch)
                if v["case"] == case]
    if case.get("mode") == "tdms":
        _, vs = _tdms_case((case["name"], ctx.scratch))
        return vs
    if case.get("mode") == "short":
        _, vs = _short_case((case["n"], case["short"], case["seed"],
                             ctx.scratch))
        return [v for v in vs if v["case"]["mask"] == case["mask"]
                and v["case"]["filtered"] == case["filtered"]]
    if case.get("mode") == "tsv":
        _, vs = _case((case["kind"], case["n"], case["seed"], "tsv", True,
                       ctx.scratch))
        return vs
    # single export
    src = Source(case["kind"], case["n"], case["seed"], ctx.scratch, "rp")
    outp = ctx.scratch / f"c02_replay_{os.getpid()}.rtdc"
    try:
        ds = src.ds
        mask = np.array(case["mask"], bool)
        ds.filter.manual[:] = mask
        ds.apply_filter()
        n = case["n"]
        sel = np.flatnonzero(mask) if case["filtered"] else np.arange(n)
        tags = {"kind": case["kind"], "filtered": case["filtered"],
                "empty": len(sel) == 0,
                "chunk_cross": bool(len(sel) >= 10 and case["tiny"])}
        try:
            with gen.chunk_bytes(100 if case["tiny"] else 1024 ** 2):
                kwp = {} if case.get("prefix") is None else {
                    "meta_prefix": case["prefix"]}
                ds.export.hdf5(outp, features=list(case["feats"]),
                               filtered=case["filtered"], logs=case["logs"],
                               tables=case["logs"], **kwp)
            return compare_export(outp, src, sel, case["feats"],
                                  case["filtered"], case, tags)
        except Exception as e:
            return [violation(EX, "exception", case,
                              f"{type(e).__name__}: {e}",
                              dict(tags, exc=type(e).__name__))]
    finally:
        src.close()
        if outp.exists():
            outp.unlink()
