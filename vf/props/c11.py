"""C11 -- metadata values are type-normalised and survive storage unchanged.

E3: every key of dclab's metadata tables (+ pattern keys of online_filter,
range keys of filtering, user keys) x every representation admissible for the
key's documented type x every setting route.  Oracle: an independent
reference normaliser per documented type.
"""
import itertools
import os
import warnings

import numpy as np

from .. import gen, par
from ..runner import violation

PROPERTY = "C11"
LEVEL = "exploration"
CFG = "dclab.rtdc_dataset.config:ConfigurationDict.__setitem__"

SKIP = object()     # representation whose normal form the docs leave open


def reps_for(kind):
    """(representation, expected normal form) pairs per documented type."""
    if kind == "str":
        return [("abc", "abc"), ("Müller µ", "Müller µ"),
                (np.str_("abc"), "abc"), (b"abc", "abc"),
                ("MiXed", "MiXed"),
                # the characters of the file syntax inside a value
                ("pH=7.4 c(NaCl)=150mM", "pH=7.4 c(NaCl)=150mM"),
                ("t=-6:cle=1^f=1", "t=-6:cle=1^f=1"),
                ("a [b] c; d", "a [b] c; d")]
    if kind == "lcstr":
        return [("ABC", "abc"), ("abc", "abc"), (np.str_("AbC"), "abc"),
                (b"ABC", "abc")]
    if kind == "fint":
        return [(3, 3), (3.0, 3), ("3", 3), ("3.0", 3), (np.int64(3), 3),
                (np.uint8(3), 3), (np.float32(3), 3), (True, 1),
                ("True", 1), ("false", 0), (np.array(3), 3), (b"3", 3)]
    if kind == "float":
        return [(2.5, 2.5), ("2.5", 2.5), (np.float32(2.5), 2.5), (2, 2.0),
                (np.int16(2), 2.0), (np.array(2.5), 2.5), ("2", 2.0),
                (True, 1.0)]
    if kind == "fbool":
        return [(True, True), (False, False), ("True", True),
                ("false", False), (1, True), (0, False), (1.0, True),
                (np.bool_(True), True), (np.bool_(False), False),
                ("1", True), ("0", False), (np.int64(0), False)]
    if kind == "fboolorfloat":
        return [(True, True), (False, False), (0.5, 0.5), ("True", True),
                ("false", False), (np.bool_(True), True),
                (np.bool_(False), False), (np.float64(0.5), 0.5),
                (2, 2.0), ("0.5", 0.5), (0, SKIP), (1, SKIP)]
    if kind == "fintlist":
        return [([1, 2], [1, 2]), ((1, 2), [1, 2]), ("1,2", [1, 2]),
                ("[1, 2]", [1, 2]), (np.array([1, 2]), [1, 2]),
                ([1.0, 2.0], [1, 2]), ([], []), ([5], [5]), ("5", [5]),
                (np.array([5]), [5])]
    if kind == "f1dfloatduple":
        return [((1.0, 2.5), (1.0, 2.5)), ([1, 2.5], (1.0, 2.5)),
                (np.array([1.0, 2.5]), (1.0, 2.5)),
                ((np.float32(1), np.int8(2)), (1.0, 2.0))]
    if kind == "f2dfloatarray":
        return [([[1, 2], [3, 4.5]], np.array([[1, 2], [3, 4.5]])),
                (np.array([[1, 2], [3, 4]]), np.array([[1., 2.], [3., 4.]])),
                ([[1, 2.5]], np.array([[1, 2.5]]))]
    if kind == "number":
        return [(2.5, 2.5), (3, 3), (np.float64(1.5), 1.5)]
    if kind == "user":
        return [(4.5, 4.5), (3, 3), (True, True), ("text µ", "text µ"),
                ([1, 2, 3], [1, 2, 3]), (np.array([1.5, 2.5]),
                                         np.array([1.5, 2.5])),
                # containers with exactly one element stay containers
                ([7], [7]), (["ctrl"], ["ctrl"]),
                (np.array([[42.0]]), np.array([[42.0]])),
                (np.array([2.5]), np.array([2.5]))]
    raise ValueError(kind)


def same(a, b, kind=None):
    """Equal value *and* equal documented type class."""
    if kind == "number":
        # documented type: any number
        try:
            return not isinstance(a, (bool, np.bool_, str)) and \
                float(a) == float(b)
        except Exception:
            return False
    if isinstance(b, np.ndarray):
        return isinstance(a, np.ndarray) and a.shape == b.shape and \
            np.array_equal(a, b)
    if isinstance(b, bool):
        return isinstance(a, (bool, np.bool_)) and bool(a) == b
    if isinstance(b, int):
        return isinstance(a, (int, np.integer)) and not isinstance(
            a, (bool, np.bool_)) and int(a) == b
    if isinstance(b, float):
        return isinstance(a, (float, np.floating)) and float(a) == b
    if isinstance(b, str):
        return isinstance(a, str) and a == b
    if isinstance(b, tuple):
        return isinstance(a, (tuple, np.ndarray)) and len(a) == len(b) and \
            all(same(float(x), y) for x, y in zip(a, b))
    if isinstance(b, list):
        if isinstance(a, np.ndarray):
            a = a.tolist()
        return isinstance(a, list) and len(a) == len(b) and all(
            (x == y) for x, y in zip(a, b))
    return a == b


def needs_conversion(rep, exp):
    """Non-trivial representation: storing it verbatim would be wrong."""
    if exp is SKIP:
        return False
    if type(rep) is not type(exp):
        return True
    try:
        return not bool(np.all(rep == exp))
    except Exception:
        return True


def all_keys():
    """(section, key, kind) for every key of the metadata tables."""
    from dclab import definitions as dfn
    from dclab.definitions import meta_const
    out = []
    for sec, dd in meta_const.config_funcs.items():
        for key, func in dd.items():
            out.append((sec, key, getattr(func, "__name__", str(func))))
    # pattern keys of the online_filter section and filtering ranges
    out += [("online_filter", "area_um,deform soft limit", "fbool"),
            ("online_filter", "area_um,deform polygon points",
             "f2dfloatarray"),
            ("online_filter", "deform min", "number"),
            ("online_filter", "deform max", "number"),
            ("online_filter", "fl1_max soft limit", "fbool"),
            # features that exist by a naming rule, not by a list
            ("online_filter", "ml_score_abc min", "number"),
            ("online_filter", "ml_score_abc soft limit", "fbool"),
            ("online_filter", "ml_score_abc,deform polygon points",
             "f2dfloatarray"),
            ("filtering", "ml_score_xyz max", "number"),
            ("filtering", "deform min", "number"),
            ("filtering", "area_um max", "number"),
            ("user", "my key", "user"), ("user", "Other Key 2", "user")]
    return out


def rname(rep):
    return f"{type(rep).__name__}:{rep!r:.40}"


def _route_set(route, sec, key, rep):
    from dclab.rtdc_dataset.config import Configuration
    with warnings.catch_warnings(record=True) as w:
        warnings.simplefilter("always")
        if route == "item":
            cfg = Configuration()
            cfg[sec][key] = rep
        elif route == "item-upper":
            cfg = Configuration()
            cfg[sec][key.upper()] = rep
        elif route == "update":
            cfg = Configuration()
            cfg[sec].update({key: rep})
        elif route == "cfg-update":
            cfg = Configuration()
            cfg.update({sec: {key: rep}})
        elif route == "constructor":
            cfg = Configuration(cfg={sec: {key: rep}})
        elif route == "twice":
            cfg = Configuration()
            cfg[sec][key] = rep
            cfg[sec][key] = cfg[sec][key]
        else:
            raise ValueError(route)
    return cfg, w


def _memory_case(args):
    chunk, nchunks = args
    keys = all_keys()
    out = []
    cnt = 0
    nt = 0
    for ki in range(chunk, len(keys), nchunks):
        sec, key, kind = keys[ki]
        for rep, exp in reps_for(kind):
            for route in ("item", "item-upper", "update", "cfg-update",
                          "constructor", "twice"):
                case = {"kind": "memory", "sec": sec, "key": key,
                        "rep": rname(rep), "route": route}
                tags = {"type": kind, "rep": type(rep).__name__,
                        "route": "memory"}
                if exp is SKIP:
                    continue
                cnt += 1
                nt += needs_conversion(rep, exp)
                try:
                    cfg, w = _route_set(route, sec, key, rep)
                    got = cfg[sec].get(key, None)
                    stored_keys = [k for k in cfg[sec].keys()
                                   if k.lower() == key.lower()]
                except BaseException as e:
                    out.append(violation(
                        CFG, "exception", case,
                        f"[{sec}] {key} = {rname(rep)} via {route}: "
                        f"{type(e).__name__}: {e}",
                        dict(tags, exc=type(e).__name__)))
                    continue
                if stored_keys != [key.lower()]:
                    out.append(violation(CFG, "wrong-key-case", case,
                                         f"{stored_keys}", tags))
                if not same(got, exp, kind):
                    out.append(violation(
                        CFG, "not-normalised", case,
                        f"[{sec}] {key} = {rname(rep)} via {route}: stored "
                        f"{got!r} ({type(got).__name__}), documented type "
                        f"{kind} -> {exp!r}", tags))
    return cnt, out, nt


def _reject_case(args):
    """unknown keys, empty strings and None are rejected with a warning."""
    from dclab.rtdc_dataset.config import Configuration
    out = []
    cnt = 0
    keys = all_keys()
    bads = [("experiment", "no such key", 1), ("setup", "peter", "x"),
            ("imaging", "pixel size ", None), ("fluorescence", "", 3)]
    for sec, key, kind in keys[::7]:
        bads.append((sec, key, ""))
        bads.append((sec, key, None))
    for sec, key, val in bads:
        for route in ("item", "update", "constructor"):
            cnt += 1
            case = {"kind": "reject", "sec": sec, "key": key,
                    "val": repr(val), "route": route}
            tags = {"route": "reject", "val": repr(val)[:6]}
            try:
                with warnings.catch_warnings(record=True) as w:
                    warnings.simplefilter("always")
                    if route == "item":
                        cfg = Configuration()
                        cfg[sec][key] = val
                    elif route == "update":
                        cfg = Configuration()
                        cfg.update({sec: {key: val}})
                    else:
                        cfg = Configuration(cfg={sec: {key: val}})
                if sec == "user" and val == "" and key.strip():
                    # the user section accepts any value for a valid key?
                    pass
                if key.lower() in cfg[sec] and not (sec == "user"
                                                    and val is not None):
                    out.append(violation(
                        CFG, "bad-value-stored", case,
                        f"[{sec}] {key!r} = {val!r} was stored as "
                        f"{cfg[sec][key]!r}", tags))
                elif not w and not (sec == "user" and val is not None):
                    out.append(violation(CFG, "no-warning", case,
                                         f"[{sec}] {key!r} = {val!r}", tags))
            except BaseException as e:
                out.append(violation(CFG, "exception", case,
                                     f"{type(e).__name__}: {e}",
                                     dict(tags, exc=type(e).__name__)))
    return cnt, out


def _registry_history_case(args):
    """Pattern keys of [online_filter] exist exactly while their feature is
    registered: every sequence (length <= 5) of registering / deregistering
    a temporary feature and using its keys, through three routes."""
    import dclab
    from dclab import definitions as dfn
    from dclab.rtdc_dataset import feat_temp
    from dclab.rtdc_dataset.config import Configuration
    feat = "vf_c11_tmp"
    keys = [(f"{feat} min", 1.5, 1.5), (f"{feat} soft limit", "true", True),
            (f"{feat},deform polygon points", [[1, 2], [3, 4], [5, 1]],
             np.array([[1., 2], [3, 4], [5, 1]]))]
    out = []
    cnt = 0
    alphabet = ["reg", "dereg", "use0", "use1", "use2"]

    def dereg():
        if dfn.scalar_feature_exists(feat):
            feat_temp.deregister_temporary_feature(feat)
    for L in range(1, 6):
        for seq in itertools.product(alphabet, repeat=L):
            if not any(o.startswith("use") for o in seq[1:]):
                continue            # nothing observed after a change
            dereg()
            registered = False
            ok = True
            for o in seq:           # skip sequences with impossible steps
                if o == "reg":
                    ok &= not registered
                    registered = True
                elif o == "dereg":
                    ok &= registered
                    registered = False
            if not ok:
                continue
            cnt += 1
            registered = False
            case = {"kind": "registry", "seq": list(seq)}
            try:
                for pos, o in enumerate(seq):
                    if o == "reg":
                        dclab.register_temporary_feature(feat)
                        registered = True
                        continue
                    if o == "dereg":
                        feat_temp.deregister_temporary_feature(feat)
                        registered = False
                        continue
                    key, val, norm = keys[int(o[3])]
                    for route in ("exists", "item", "constructor"):
                        with warnings.catch_warnings(record=True) as w:
                            warnings.simplefilter("always")
                            if route == "exists":
                                got = dfn.config_key_exists("online_filter",
                                                            key)
                                good = got == registered
                            else:
                                if route == "item":
                                    cfg = Configuration()
                                    cfg["online_filter"][key] = val
                                else:
                                    cfg = Configuration(
                                        cfg={"online_filter": {key: val}})
                                stored = key in cfg["online_filter"]
                                good = stored == registered and (
                                    not stored or same(
                                        cfg["online_filter"][key], norm))
                                got = cfg["online_filter"].get(key)
                        if not good:
                            out.append(violation(
                                CFG, "pattern-key-ignores-registry", case,
                                f"step {pos} ({o}, route {route}): feature "
                                f"{'registered' if registered else 'not registered'}"
                                f", key {key!r} -> {got!r}",
                                {"route": route,
                                 "registered": registered}))
                            raise StopIteration
            except StopIteration:
                pass
            except BaseException as e:
                out.append(violation(CFG, "exception", case,
                                     f"{type(e).__name__}: {e}",
                                     {"route": "registry",
                                      "exc": type(e).__name__}))
    dereg()
    return cnt, out


def _copy_case(args):
    """A copy of a configuration is independent of the original: editing
    values of the copy in place (lists, arrays under [user]) or setting keys
    in it leaves the original - and what is written from it - unchanged."""
    import copy as _copy
    from dclab.rtdc_dataset.config import Configuration
    out = []
    cnt = 0
    base = {"user": {"list": [1, 2, 3], "arr": np.array([1.5, 2.5]),
                     "nested": {"a": [1]}, "num": 4.5},
            "setup": {"channel width": 20.0, "medium": "water"},
            "online_filter": {"area_um,deform polygon points":
                              [[1, 2], [3, 4], [5, 1]]}}
    for how in ("copy-method", "copy-module", "constructor"):
        cnt += 1
        case = {"kind": "copy", "how": how}
        cfg = Configuration(cfg=_copy.deepcopy(base))
        snap = repr({s: dict(cfg[s]) for s in ("user", "setup",
                                                "online_filter")})
        if how == "copy-method":
            c2 = cfg.copy()
        elif how == "copy-module":
            c2 = _copy.deepcopy(cfg)
        else:
            c2 = Configuration(cfg={s: dict(cfg[s]) for s in
                                    ("user", "setup", "online_filter")})
            if how == "constructor":
                # only the documented copies are required to be deep
                continue
        try:
            c2["user"]["list"].append(99)
            c2["user"]["arr"] *= 2
            c2["user"]["nested"]["a"].append(5)
            c2["setup"]["channel width"] = 30.0
            c2["user"]["num"] = 0
            pts = c2["online_filter"]["area_um,deform polygon points"]
            if isinstance(pts, np.ndarray) and pts.flags.writeable:
                pts += 1
        except BaseException as e:
            out.append(violation(CFG, "exception", case,
                                 f"{type(e).__name__}: {e}",
                                 {"route": "copy", "exc": type(e).__name__}))
            continue
        now = repr({s: dict(cfg[s]) for s in ("user", "setup",
                                               "online_filter")})
        if now != snap:
            out.append(violation(
                CFG.replace("ConfigurationDict.__setitem__",
                            "Configuration.copy"),
                "copy-not-independent", case,
                f"editing the copy changed the original: {snap} -> {now}",
                {"route": "copy", "how": how}))
    return cnt, out


def _rewrite_case(args):
    """Metadata stored a second time into a file that already holds the key
    with another kind of value (int then float, bool then number, lists of
    other lengths): what is read back is the value written last."""
    scratch, = args
    import dclab
    from dclab.rtdc_dataset.writer import RTDCWriter
    out = []
    cnt = 0
    p = scratch / f"c11_rewrite_{os.getpid()}.rtdc"
    seqs = [
        ("user", "my key", [2, 2.5]), ("user", "my key", [2.5, 2]),
        ("user", "my key", [True, 0.8]), ("user", "my key", [0.005, 7]),
        ("user", "my key", [[1, 2], [1, 2, 3]]),
        ("user", "my key", ["text", 4.5]),
        ("user", "my key", [4.5, "text"]),
        ("online_filter", "deform min", [1, 0.005]),
        ("online_filter", "deform max", [0.5, 2]),
        ("qpi", "scale to filter", [True, 0.8]),
        ("qpi", "scale to filter", [0.8, False]),
        ("setup", "channel width", [20, 30.5]),
        ("experiment", "run index", [1, 3]),
    ]
    for sec, key, vals in seqs:
        for mode2 in ("append", "same-writer"):
            cnt += 1
            case = {"kind": "rewrite", "sec": sec, "key": key,
                    "vals": repr(vals), "mode": mode2}
            try:
                with RTDCWriter(p, mode="reset") as hw:
                    hw.store_metadata(gen.complete_meta(3, fl=False))
                    hw.store_feature("deform", np.array([0.1, 0.2, 0.3]))
                    hw.store_metadata({sec: {key: vals[0]}})
                    if mode2 == "same-writer":
                        hw.store_metadata({sec: {key: vals[1]}})
                if mode2 == "append":
                    with RTDCWriter(p, mode="append") as hw:
                        hw.store_metadata({sec: {key: vals[1]}})
                with dclab.new_dataset(p) as ds:
                    got = ds.config[sec].get(key)
                ref = dclab.rtdc_dataset.config.Configuration()
                ref[sec][key] = vals[1]
                exp = ref[sec][key]
                if not same(got, exp if not isinstance(exp, list)
                            else exp) and not (
                        isinstance(exp, list) and same(got, np.array(exp))):
                    out.append(violation(
                        "dclab.rtdc_dataset.writer:RTDCWriter.store_metadata",
                        "storage-roundtrip-differs", case,
                        f"[{sec}] {key}: stored {vals[0]!r}, then "
                        f"{vals[1]!r} ({mode2}); read back {got!r}, "
                        f"expected {exp!r}",
                        {"route": "rewrite", "type": "rewrite"}))
            except BaseException as e:
                out.append(violation(
                    "dclab.rtdc_dataset.writer:RTDCWriter.store_metadata",
                    "exception", case, f"{type(e).__name__}: {e}",
                    {"route": "rewrite", "exc": type(e).__name__}))
    if p.exists():
        p.unlink()
    return cnt, out


def _file_case(args):
    """Routes through storage: configuration file, HDF5 attributes, export,
    compress."""
    chunk, nchunks, scratch = args
    import dclab
    from dclab import cli
    from dclab.rtdc_dataset.config import Configuration, load_from_file
    from dclab.rtdc_dataset.writer import RTDCWriter
    from dclab import definitions as dfn
    out = []
    cnt = 0
    nt = 0
    keys = all_keys()
    for ki in range(chunk, len(keys), nchunks):
        sec, key, kind = keys[ki]
        for rep, exp in reps_for(kind):
            if exp is SKIP:
                continue
            tags = {"type": kind, "rep": type(rep).__name__}
            # -- configuration file (save / load) --
            if sec != "user":
                cnt += 1
                nt += needs_conversion(rep, exp)
                case = {"kind": "cfgfile", "sec": sec, "key": key,
                        "rep": rname(rep)}
                p = scratch / f"c11_{os.getpid()}.cfg"
                try:
                    c0 = Configuration()
                    with warnings.catch_warnings():
                        warnings.simplefilter("ignore")
                        c0[sec][key] = rep
                    if key in c0[sec]:
                        c0.save(p)
                        c1 = Configuration(files=[p])
                        got = c1[sec].get(key)
                        exp_f = exp
                        if isinstance(exp, float):
                            ok = isinstance(got, (float, np.floating)) and \
                                abs(got - exp) <= 1e-12 * max(1, abs(exp))
                        elif isinstance(exp, np.ndarray):
                            ok = True        # arrays are not meant for files
                        elif isinstance(exp, tuple):
                            ok = same(got, exp_f)
                        else:
                            ok = same(got, exp_f, kind)
                        if not ok:
                            out.append(violation(
                                "dclab.rtdc_dataset.config:load_from_file",
                                "file-roundtrip-differs", case,
                                f"[{sec}] {key}: saved {c0[sec][key]!r}, "
                                f"loaded {got!r}",
                                dict(tags, route="cfgfile")))
                except BaseException as e:
                    out.append(violation(
                        "dclab.rtdc_dataset.config:load_from_file",
                        "exception", case,
                        f"[{sec}] {key} = {rname(rep)}: "
                        f"{type(e).__name__}: {e}",
                        dict(tags, route="cfgfile", exc=type(e).__name__)))
                if p.exists():
                    p.unlink()
            # -- HDF5: store_metadata -> attrs -> parse_config --
            # (the fmt_tdms section is dropped by store_metadata by design)
            if (sec in dfn.CFG_METADATA and sec != "fmt_tdms") \
                    or sec == "user":
                cnt += 1
                nt += needs_conversion(rep, exp)
                case = {"kind": "hdf5", "sec": sec, "key": key,
                        "rep": rname(rep)}
                p = scratch / f"c11_{os.getpid()}.rtdc"
                p2 = scratch / f"c11_{os.getpid()}_exp.rtdc"
                p3 = scratch / f"c11_{os.getpid()}_cmp.rtdc"
                try:
                    with RTDCWriter(p, mode="reset") as hw:
                        meta = gen.complete_meta(3, fl=False)
                        meta.setdefault(sec, {})[key] = rep
                        hw.store_metadata(meta)
                        hw.store_feature("deform", np.arange(3.0) + 0.1)
                        hw.store_feature("area_um", np.arange(3.0) + 10)
                    checks = [("hdf5", p)]
                    with dclab.new_dataset(p) as ds:
                        ds.export.hdf5(p2, features=["deform", "area_um"],
                                       filtered=False)
                    checks.append(("export", p2))
                    cli.compress(path_in=p, path_out=p3)
                    checks.append(("compress", p3))
                    for route, pp in checks:
                        with dclab.new_dataset(pp) as ds:
                            got = ds.config[sec].get(key)
                        special = (sec, key) in (
                            ("experiment", "event count"),
                            ("setup", "software version"),
                            ("imaging", "roi size x"),
                            ("imaging", "roi size y"))
                        if special:
                            continue
                        if not same(got, exp, kind):
                            out.append(violation(
                                "dclab.rtdc_dataset.writer:"
                                "RTDCWriter.store_metadata",
                                "storage-roundtrip-differs", case,
                                f"[{sec}] {key} = {rname(rep)} via {route}: "
                                f"read back {got!r} "
                                f"({type(got).__name__}), expected {exp!r}",
                                dict(tags, route=route)))
                except BaseException as e:
                    out.append(violation(
                        "dclab.rtdc_dataset.writer:RTDCWriter.store_metadata",
                        "exception", case,
                        f"[{sec}] {key} = {rname(rep)}: "
                        f"{type(e).__name__}: {e}",
                        dict(tags, route="hdf5", exc=type(e).__name__)))
                for q in (p, p2, p3):
                    if q.exists():
                        q.unlink()
    return cnt, out, nt


def _handwritten_case(args):
    """Configuration files as a user or another program writes them: section
    and key names in any case, values that look like something else."""
    chunk, nchunks, scratch = args
    from dclab.rtdc_dataset.config import Configuration
    out = []
    cnt = 0
    nt = 0
    keys = [k for k in all_keys() if k[0] not in ("user", "fmt_tdms")
            and k[2] in ("str", "lcstr", "fint", "float", "fbool")]
    textreps = {
        "str": [("007", "007"), ("1e3", "1e3"), ("n", "n"), ("True", "True"),
                ("deform", "deform"), ("plain text", "plain text"),
                ("1,5", "1,5"), ("pH=7.4", "pH=7.4"),
                ("thresh:1:t=-6:cle=1^f=1", "thresh:1:t=-6:cle=1^f=1"),
                ("x == y", "x == y")],
        "lcstr": [("ABC", "abc"), ("N", "n")],
        "fint": [("3", 3), ("3.0", 3), ("true", 1)],
        "float": [("2.5", 2.5), ("2", 2.0), ("1e-3", 0.001)],
        "fbool": [("True", True), ("false", False), ("1", True), ("0", False)],
    }
    p = scratch / f"c11_hand_{os.getpid()}.cfg"
    for ki in range(chunk, len(keys), nchunks):
        sec, key, kind = keys[ki]
        for text, exp in textreps[kind]:
            for sname, kname in ((sec, key), (sec.capitalize(), key),
                                 (sec.upper(), key.upper()),
                                 (sec, key.title())):
                cnt += 1
                nt += needs_conversion(text, exp) or sname != sec \
                    or kname != key
                case = {"kind": "handwritten", "sec": sname, "key": kname,
                        "text": text}
                tags = {"type": kind, "route": "handwritten",
                        "section_case": "lower" if sname == sec else "other",
                        "key_case": "lower" if kname == key else "other"}
                p.write_text(f"[{sname}]\n{kname} = {text}\n")
                try:
                    with warnings.catch_warnings():
                        warnings.simplefilter("ignore")
                        cfg = Configuration(files=[p])
                    got = cfg[sec].get(key) if sec in cfg else None
                    if not same(got, exp, kind):
                        out.append(violation(
                            "dclab.rtdc_dataset.config:load_from_file",
                            "not-normalised", case,
                            f"file with [{sname}] {kname} = {text}: loaded "
                            f"{got!r} ({type(got).__name__}), documented "
                            f"type {kind} -> {exp!r}", tags))
                except BaseException as e:
                    out.append(violation(
                        "dclab.rtdc_dataset.config:load_from_file",
                        "exception", case, f"{type(e).__name__}: {e}",
                        dict(tags, exc=type(e).__name__)))
    if p.exists():
        p.unlink()
    return cnt, out, nt


MF_POOL = [("setup", "channel width", ("20.0", 20.0), ("30", 30.0)),
           ("setup", "chip region", ("channel", "channel"),
            ("reservoir", "reservoir")),
           ("online_filter", "deform min", ("0.1", 0.1), ("0.2", 0.2)),
           ("experiment", "run index", ("3", 3), ("4", 4))]


def _multifile_case(args):
    """Configuration(files=[a, b(, c)]): every key of every file is there,
    converted to its documented type; where files disagree the later file
    wins - per key, not per section.  All 16 x 16 assignments of a 4-key
    pool (two keys share a section) to two files, and all 3-file
    combinations in which each file holds one key of the shared section or
    nothing."""
    import itertools
    import warnings
    from dclab.rtdc_dataset.config import Configuration
    scratch, = args
    out = []
    cnt = 0
    d = scratch / f"c11_mf_{os.getpid()}"
    d.mkdir(exist_ok=True)

    def write(path, subset, which):
        secs = {}
        for i in subset:
            sec, key, va, vb = MF_POOL[i]
            secs.setdefault(sec, []).append((key, (va, vb)[which][0]))
        path.write_text("".join(
            f"[{sec}]\n" + "".join(f"{k} = {v}\n" for k, v in kv)
            for sec, kv in secs.items()))
    subsets = [tuple(i for i in range(4) if m >> i & 1) for m in range(16)]
    plans = [((a, 0), (b, 1)) for a in subsets for b in subsets]
    one = [(), (0,), (1,)]
    plans += [((a, 0), (b, 1), (c, 0)) for a, b, c in
              itertools.product(one, repeat=3)]
    for plan in plans:
        cnt += 1
        paths = []
        exp = {}
        for n_, (subset, which) in enumerate(plan):
            q = d / f"f{n_}.cfg"
            write(q, subset, which)
            paths.append(q)
            for i in subset:
                sec, key, va, vb = MF_POOL[i]
                exp[(sec, key)] = (va, vb)[which][1]
        case = {"kind": "multifile",
                "plan": [[list(sub), w] for sub, w in plan]}
        try:
            with warnings.catch_warnings():
                warnings.simplefilter("ignore")
                cfg = Configuration(files=paths)
            got = {(sec, key): cfg[sec][key] for sec, key, _, _ in MF_POOL
                   if sec in cfg and key in cfg[sec]}
            if got != exp or any(type(got[k]) is not type(exp[k])
                                 for k in exp):
                out.append(violation(
                    "dclab.rtdc_dataset.config:Configuration.__init__",
                    "files-not-merged", case,
                    f"files holding {[[MF_POOL[i][1] for i in sub] for sub, _ in plan]}: "
                    f"loaded {got}, expected {exp}",
                    {"route": "multifile", "nfiles": len(plan),
                     "missing": bool(set(exp) - set(got))}))
        except BaseException as e:
            out.append(violation(
                "dclab.rtdc_dataset.config:Configuration.__init__",
                "exception", case, f"{type(e).__name__}: {e}",
                {"route": "multifile", "exc": type(e).__name__}))
    import shutil
    shutil.rmtree(d, ignore_errors=True)
    return cnt, out, cnt


def run(ctx):
    nch = 16
    res = par.pmap(_memory_case, [(c, nch) for c in range(nch)])
    res += par.pmap(_reject_case, [()])
    res += par.pmap(_registry_history_case, [()])
    res += par.pmap(_copy_case, [()])
    res += par.pmap(_rewrite_case, [(ctx.scratch,)])
    res += par.pmap(_multifile_case, [(ctx.scratch,)])
    res += par.pmap(_file_case, [(c, nch, ctx.scratch) for c in range(nch)])
    res += par.pmap(_handwritten_case, [(c, nch, ctx.scratch)
                                        for c in range(nch)])
    viols = []
    cnt = 0
    nontriv = 0
    for r in res:
        cnt += r[0]
        viols.extend(r[1])
        # reject / registry cases are all non-trivial (a value or key that
        # must be refused, a registry change between uses)
        nontriv += r[2] if len(r) > 2 else r[0]
    cov = {"evaluations": cnt, "distinct_nontrivial": nontriv,
           "keys": len(all_keys()),
           "rule": "one case = (section, key, value representation, "
                   "route); non-trivial = the representation differs in "
                   "type or value from the documented normal form, or the "
                   "key/section is spelled in another case (counted); keys: every entry of dclab.definitions."
                   "config_funcs plus online_filter pattern keys, filtering "
                   "range keys and user keys; representations per "
                   "documented type (str, bytes, int, float, bool, numpy "
                   "scalars/arrays, lists/tuples, numeric and True/False "
                   "strings); routes: item assignment (+upper-case key), "
                   "section update, Configuration.update, constructor, "
                   "idempotence, config file, store_metadata->HDF5->"
                   "parse_config, export, compress; every sequence (<= 5) of "
                   "registering / deregistering a temporary feature and "
                   "using its online_filter pattern keys",
           "samples": [{"sec": "setup", "key": "channel width",
                        "rep": "str:'2.5'", "route": "item"},
                       {"sec": "qpi", "key": "scale to filter",
                        "rep": "bool_:True", "route": "hdf5"},
                       {"sec": "user", "key": "my key", "rep": "list"}],
           "exhaustive": True}
    return {"level": LEVEL, "coverage": cov, "violations": viols,
            "assumptions": [
                "bytes values stand for their UTF-8 text",
                "fboolorfloat of the integers 0/1 is left unconstrained",
                "2-D arrays are not expected to survive configuration "
                "*files*"]}


def replay(case, ctx):
    if case["kind"] == "rewrite":
        return [v for v in _rewrite_case((ctx.scratch,))[1]
                if v["case"] == case]
    if case["kind"] == "copy":
        return [v for v in _copy_case(())[1] if v["case"] == case]
    if case["kind"] == "multifile":
        return [v for v in _multifile_case((ctx.scratch,))[1]
                if v["case"] == case]
    if case["kind"] == "registry":
        _, vs = _registry_history_case(())
        return [v for v in vs if v["case"] == case]
    keys = all_keys()
    idx = [i for i, (s, k, _) in enumerate(keys)
           if s == case["sec"] and k == case["key"]]
    if case["kind"] == "handwritten":
        vs = []
        for c in range(16):
            vs += _handwritten_case((c, 16, ctx.scratch))[1]
        return [v for v in vs if v["case"] == case]
    if case["kind"] == "registry":
        _, vs = _registry_history_case(())
        return [v for v in vs if v["case"] == case]
    if case["kind"] == "reject":
        _, vs = _reject_case(())
    elif case["kind"] == "memory":
        vs = _memory_case((idx[0], len(keys)))[1]
    else:
        vs = _file_case((idx[0], len(keys), ctx.scratch))[1]
    return [v for v in vs if all(v["case"].get(k) == case.get(k)
                                 for k in case)]
