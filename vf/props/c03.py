"""C03 -- the combined event filter equals the specification of the settings.

Engine E1: breadth-first exploration of edit/apply histories on a real
RTDC_Dict dataset; oracle = stateless evaluation of the current settings.
"""
import numpy as np

from .. import explore
from ..runner import violation

PROPERTY = "C03"
LEVEL = "model_checking"

NAN = float("nan")
INF = float("inf")

DATA = {
    # NaN / inf and ties with the range bounds
    "deform": [0.01, 0.02, 0.02, 0.05, NAN, INF, 0.08, 0.10],
    "area_um": [10.0, 20.0, 30.0, 40.0, 50.0, 60.0, NAN, 80.0],
    # finite polygon axes
    "aspect": [1.0, 1.5, 2.0, 2.5, 3.0, 3.5, 4.0, 4.5],
    # large values, narrow windows (the width of a range is tiny compared
    # with its limits)
    "time": [1000.010, 1000.011, 1000.012, 1000.013, 1000.014, 1000.015,
             1000.016, 1000.017],
    "bright_avg": [5.0, 15.0, 25.0, 35.0, 45.0, 55.0, 65.0, 75.0],
    # integer-typed data with range limits that are not integers
    "frame": [100, 105, 110, 115, 116, 120, 125, 130],
}
N = 8

RANGES = {
    "deform": [(0.02, 0.05), (0.08, 0.02), (0.05, 0.05), (0.0, INF)],
    "area_um": [(20.0, 50.0), (60.0, 30.0)],
    # a feature without NaN / inf (sorted after the ones that have them)
    "bright_avg": [(15.0, 55.0), (65.0, 25.0), (35.0, 35.0)],
    "time": [(1000.0115, 1000.0145),
             (1000.013, float(np.nextafter(1000.013, 2000.0))),
             (1000.012, 1000.012)],
    "frame": [(110.5, 125.2), (115.2, 115.8), (104.9, 105.1),
              (115.9, 116.0)],
}

# polygons on (aspect, bright_avg); query points are never on a boundary
POLYS = {
    0: [[[0.7, 0.0], [2.7, 0.0], [2.7, 40.0], [0.7, 40.0]],      # ev 0..3
        [[1.2, 10.0], [3.7, 10.0], [3.7, 60.0], [1.2, 60.0]]],   # ev 1..5
    1: [[[1.7, 20.0], [5.0, 20.0], [5.0, 80.0], [1.7, 80.0]],    # ev 2..7
        [[1.7, 20.0], [5.0, 20.0], [3.2, 50.0], [5.0, 80.0], [1.7, 80.0]]],
    # on axes that hold NaN / inf values
    2: [[[15.0, 0.015], [55.0, 0.015], [55.0, 0.09], [15.0, 0.09]],
        [[5.0, 0.005], [45.0, 0.005], [45.0, 0.06], [5.0, 0.06]]],
}
POLY_AXES = {0: ("aspect", "bright_avg"), 1: ("aspect", "bright_avg"),
             2: ("area_um", "deform")}


def crossing_inside(px, py, poly):
    """Even-odd rule; exact for points off the boundary."""
    inside = False
    n = len(poly)
    for i in range(n):
        x1, y1 = poly[i]
        x2, y2 = poly[(i + 1) % n]
        if (y1 > py) != (y2 > py):
            xint = x1 + (py - y1) * (x2 - x1) / (y2 - y1)
            if px < xint:
                inside = not inside
    return inside


class St:
    pass


class FilterDriver(explore.Driver):
    name = "filter-history"

    def __init__(self, feats=("deform", "area_um"), polys=(0, 1),
                 with_apply_variants=True, seedvals=None):
        self.feats = feats
        self.polys = polys
        self.with_apply_variants = with_apply_variants

    def config(self):
        return {"feats": list(self.feats), "polys": list(self.polys)}

    # -- construction -----------------------------------------------------
    def _new_ds(self):
        import dclab
        return dclab.new_dataset({k: np.array(v) for k, v in DATA.items()})

    def fresh(self):
        from dclab.polygon_filter import PolygonFilter
        PolygonFilter.clear_all_filters()
        st = St()
        st.pfs = {}
        st.pvar = {}
        for i in self.polys:
            st.pfs[i] = PolygonFilter(axes=POLY_AXES[i],
                                      points=POLYS[i][0], unique_id=100 + i)
            st.pvar[i] = 0
        st.ds = self._new_ds()
        st.applied = True   # a new dataset has consistent (all-True) filters
        st.error = None
        return st

    # -- alphabet ---------------------------------------------------------
    def edits(self, st):
        cfg = st.ds.config["filtering"]
        out = []
        for f in self.feats:
            for lo, hi in RANGES[f]:
                out.append((["range", f, lo, hi], 0))
            if f + " min" in cfg:
                out.append((["unrange", f], 0))
        for i in self.polys:
            if 100 + i in cfg["polygon filters"]:
                out.append((["poly_rm", i], 0))
            else:
                out.append((["poly_add", i], 0))
            out.append((["poly_inv", i], 1))
            out.append((["poly_move", i], 1))
        out.append((["invalid"], 0))
        out.append((["enable"], 0))
        for lim in (0, 2, 100):
            if cfg["limit events"] != lim:
                out.append((["limit", lim], 0))
        for i in (0, 3):
            out.append((["manual", i], 0))
        out.append((["manual_set", 1], 1))
        out.append((["reset"], 1))
        return out

    def ops(self, st):
        out = []
        for op, dev in self.edits(st):
            out.append((op + ["apply"], dev))
        if self.with_apply_variants:
            for op, dev in self.edits(st):
                out.append((op + ["noapply"], dev + 1))
            if not st.applied:
                out.append((["nop", "apply"], 0))
        return out

    def apply(self, st, op):
        ds = st.ds
        cfg = ds.config["filtering"]
        kind = op[0]
        if kind == "range":
            _, f, lo, hi = op[:4]
            cfg[f + " min"] = lo
            cfg[f + " max"] = hi
        elif kind == "unrange":
            cfg.pop(op[1] + " min")
            cfg.pop(op[1] + " max")
        elif kind == "poly_add":
            ds.polygon_filter_add(st.pfs[op[1]])
        elif kind == "poly_rm":
            ds.polygon_filter_rm(st.pfs[op[1]])
        elif kind == "poly_inv":
            pf = st.pfs[op[1]]
            pf.inverted = not pf.inverted
        elif kind == "poly_move":
            i = op[1]
            st.pvar[i] = 1 - st.pvar[i]
            st.pfs[i].points = np.array(POLYS[i][st.pvar[i]], dtype=float)
        elif kind == "invalid":
            cfg["remove invalid events"] = not cfg["remove invalid events"]
        elif kind == "enable":
            cfg["enable filters"] = not cfg["enable filters"]
        elif kind == "limit":
            cfg["limit events"] = op[1]
        elif kind == "manual":
            ds.filter.manual[op[1]] = not ds.filter.manual[op[1]]
        elif kind == "manual_set":
            # the array is replaced, not edited in place
            new = np.array(ds.filter.manual, dtype=bool, copy=True)
            new[op[1]] = not new[op[1]]
            ds.filter.manual = new
        elif kind == "reset":
            ds.reset_filter()
        elif kind == "nop":
            pass
        else:
            raise ValueError(op)
        st.applied = False
        st.error = None
        if op[-1] == "apply":
            try:
                ds.apply_filter()
                st.applied = True
            except Exception as e:  # the spec never raises for these inputs
                st.error = f"{type(e).__name__}: {e}"
        if st.applied:
            return tuple(ds.filter.all.tolist())
        return None

    # -- oracle -----------------------------------------------------------
    def spec(self, st):
        ds = st.ds
        cfg = ds.config["filtering"]
        box = np.ones(N, bool)
        for f in DATA:
            kmin, kmax = f + " min", f + " max"
            if kmin in cfg and kmax in cfg and cfg[kmin] != cfg[kmax]:
                lo, hi = sorted((cfg[kmin], cfg[kmax]))
                d = np.array(DATA[f])
                with np.errstate(invalid="ignore"):
                    sel = (d >= lo) & (d <= hi)
                sel[np.isnan(d)] = False
                box &= sel
        poly = np.ones(N, bool)
        for uid in cfg["polygon filters"]:
            i = uid - 100
            pts = POLYS[i][st.pvar[i]]
            ax, ay = POLY_AXES[i]
            ins = np.array([crossing_inside(DATA[ax][e], DATA[ay][e], pts)
                            for e in range(N)])
            if st.pfs[i].inverted:
                ins = ~ins
            poly &= ins
        invalid = np.ones(N, bool)
        if cfg["remove invalid events"]:
            for f in DATA:
                d = np.array(DATA[f])
                invalid &= np.isfinite(d)
        manual = np.array(ds.filter.manual, bool)
        qual = box & poly & invalid & manual
        return box, poly, invalid, qual

    def check(self, st):
        if st.error:
            return [violation("dclab.rtdc_dataset.filter:Filter.update",
                              "exception", None, st.error,
                              {"exc": st.error.split(":")[0]})]
        if not st.applied:
            return []
        ds = st.ds
        cfg = ds.config["filtering"]
        box, poly, invalid, qual = self.spec(st)
        flt = ds.filter
        out = []

        def bad(which, got, exp, tags=None):
            t = {"array": which}
            t.update(tags or {})
            out.append(violation(
                "dclab.rtdc_dataset.filter:Filter.update", "wrong-selection",
                None, f"filter.{which}: got {got.astype(int).tolist()} "
                f"expected {exp.astype(int).tolist()} with settings "
                f"{dict(cfg)} manual={flt.manual.astype(int).tolist()}", t))
        got = np.array(flt.all)
        if not cfg["enable filters"]:
            # with filters disabled the property only speaks about the
            # combined selection (the partial arrays may be left untouched)
            if not got.all():
                bad("all", got, np.ones(N, bool), {"case": "disabled"})
            return out
        if not np.array_equal(flt.box, box):
            bad("box", flt.box, box)
        if not np.array_equal(flt.polygon, poly):
            bad("polygon", flt.polygon, poly)
        if not np.array_equal(flt.invalid, invalid):
            bad("invalid", flt.invalid, invalid)
        lim = cfg["limit events"]
        if lim > 0 and qual.sum() > lim:
            if got.sum() != lim or (got & ~qual).any():
                bad("all", got, qual, {"case": "limit"})
            else:
                # reproducible: a fresh dataset with the same settings
                ds2 = self._new_ds()
                ds2.config["filtering"].update(dict(cfg))
                ds2.config["filtering"]["polygon filters"] = list(
                    cfg["polygon filters"])
                ds2.filter.manual[:] = flt.manual
                ds2.apply_filter()
                if not np.array_equal(ds2.filter.all, got):
                    bad("all", got, np.array(ds2.filter.all),
                        {"case": "limit-reproducible"})
        elif not np.array_equal(got, qual):
            bad("all", got, qual)
        return out

    # -- state merging ----------------------------------------------------
    def canon(self, st):
        ds = st.ds
        flt = ds.filter
        cfg = ds.config["filtering"]

        def cf(d):
            return tuple(sorted((k, repr(v)) for k, v in dict(d).items()))
        try:
            priv = (
                cf(flt._old_config),
                tuple(sorted((k, v.tobytes())
                             for k, v in flt._box_filters.items())),
                tuple(sorted((k, v[0], v[1].tobytes())
                             for k, v in flt._poly_filters.items())),
                tuple(sorted((k, v.tobytes())
                             for k, v in flt._array_props.items())),
            )
        except AttributeError:
            # refactored internals: fall back to "history = state"
            st._hist_id = getattr(st, "_hist_id", object())
            priv = explore.unique_token()
        return (cf(cfg), flt.manual.tobytes(), priv, st.applied,
                tuple(sorted((i, st.pvar[i], st.pfs[i].inverted)
                             for i in st.pfs)))


def drivers(ctx):
    if ctx.quick:
        return [("full", FilterDriver(), 3, 1),
                ("noapply", FilterDriver(feats=("deform",), polys=(0,)),
                 4, 2),
                ("nan-polygon", FilterDriver(feats=("deform",), polys=(2,),
                                             with_apply_variants=False),
                 4, 1),
                # ranges on a feature with NaN and on one without, set
                # together (edits that are not applied at once)
                ("nan-and-finite", FilterDriver(
                    feats=("area_um", "bright_avg"), polys=()), 4, 1),
                ("narrow-windows", FilterDriver(
                    feats=("time",), polys=()), 3, 1),
                ("integer-data", FilterDriver(
                    feats=("frame",), polys=()), 3, 1)]
    return [("full", FilterDriver(), 4, 2),
            ("small-deep", FilterDriver(feats=("deform",), polys=(0,)),
             6, 3),
            ("nan-polygon", FilterDriver(feats=("deform", "area_um"),
                                         polys=(2,)), 4, 2),
            ("nan-and-finite", FilterDriver(
                feats=("area_um", "bright_avg", "deform"), polys=()), 4, 2),
            ("narrow-windows", FilterDriver(
                feats=("time", "deform"), polys=()), 4, 2),
            ("integer-data", FilterDriver(
                feats=("frame", "deform"), polys=()), 4, 2)]


def run(ctx):
    parts = []
    viols = []
    for name, drv, depth, dev in drivers(ctx):
        stats, vs = explore.bfs(drv, max_depth=depth, max_dev=dev,
                                log=ctx.log)
        parts.append((name, stats))
        viols.extend(vs)
    cov = explore.merge_stats(parts)
    cov["rule"] = ("BFS over edit[/apply] histories on an 8-event RTDC_Dict "
                   "(NaN, inf, ties with bounds); every edit has an "
                   "'apply now' (dev 0) and a 'do not apply yet' (dev +1) "
                   "variant; polygon inversion/vertex move and reset_filter "
                   "are deviations; states merged on config+filter caches")
    vac = None
    if cov["distinct_observations"] < 5:
        vac = f"only {cov['distinct_observations']} distinct filter results"
    # one large input (30000 events) through this property's entry points
    from .. import big
    viols = list(viols) + big.violations("C03", ctx.scratch)
    cov["big_input_events"] = big.N
    return {"level": LEVEL, "coverage": cov, "violations": viols,
            "vacuous": vac,
            "assumptions": [
                "polygon query points are off the boundary and finite",
                "a range is removed by deleting both of its keys",
                "8 events, 2 ranged features, 2 polygons (alphabet)"]}


def replay(case, ctx):
    if case.get("kind") == "big":
        from .. import big
        return big.violations("C03", ctx.scratch)
    cfg = case.get("config", {})
    drv = FilterDriver(feats=tuple(cfg.get("feats", ("deform", "area_um"))),
                       polys=tuple(cfg.get("polys", (0, 1))))
    return explore.replay(drv, case)
