"""C05 -- Young's modulus is the scaled linear interpolation of the LUT.

E3 + short call histories.  The continuum is abstracted to the finite cell
complex of each look-up table: every node, every Delaunay simplex (vertices,
edge mid-points, centroid) and every hull edge (a point just inside / just
outside), for every built-in LUT and jittered user LUTs (path, identifier,
array+metadata; area- and volume-based).  Oracle: pixelation correction and
scaling laws re-stated here, barycentric interpolation on
scipy.spatial.Delaunay of the normalised table.
"""
import itertools
import json

import numpy as np

from .. import par
from ..runner import violation

PROPERTY = "C05"
LEVEL = "exploration"
GE = "dclab.features.emodulus:get_emodulus"


# -- reference (re-stated from the documentation) ------------------------------

def px_delta_area(area_um, px_um):
    s = (0.34 / px_um) ** 2
    return (0.0012 + 0.020 * np.exp(-area_um * s / 7.1)
            + 0.010 * np.exp(-area_um * s / 38.6)
            + 0.005 * np.exp(-area_um * s / 296))


def px_delta_volume(volume, px_um):
    s = (0.34 / px_um) ** 3
    return (0.0013 + 0.0172 * np.exp(-volume * s / 40)
            + 0.0070 * np.exp(-volume * s / 450)
            + 0.0032 * np.exp(-volume * s / 6040))


def reference(lut, meta, datax, deform, channel_width, flow_rate, px_um,
              visc):
    """E = interp_LUT(x * (W_lut/W)^p, deform - delta) * (Q/Q_lut) *
    (eta/eta_lut) * (W_lut/W)^3 ; p = 2 for area, 3 for volume."""
    from scipy.spatial import Delaunay
    featx = meta["column features"][0]
    deform = np.array(deform, float)
    datax = np.array(datax, float)
    if px_um:
        deform = deform - (px_delta_area(datax, px_um) if featx == "area_um"
                           else px_delta_volume(datax, px_um))
    p = 2 if featx == "area_um" else 3
    wl = meta["channel_width"]
    x = datax * (wl / channel_width) ** p
    nx, ny = lut[:, 0].max(), lut[:, 1].max()
    pts = np.stack([lut[:, 0] / nx, lut[:, 1] / ny], axis=1)
    tri = Delaunay(pts)
    q = np.stack([x / nx, deform / ny], axis=1)
    simp = tri.find_simplex(q)
    # Next to degenerate (zero-area) simplices of the large tables the
    # walking point location can give up for points that lie exactly on an
    # edge; such probes are located exhaustively and reported as ambiguous
    # (they are "on a cell boundary" for any floating-point implementation).
    miss = np.flatnonzero(simp < 0)
    ambiguous = np.zeros(len(q), bool)
    if len(miss):
        brute = tri.find_simplex(q[miss], bruteforce=True, tol=1e-10)
        ambiguous[miss[brute >= 0]] = True
        simp[miss] = brute
    out = np.full(len(q), np.nan)
    ok = simp >= 0
    T = tri.transform[simp[ok]]
    bary2 = np.einsum("nij,nj->ni", T[:, :2, :], q[ok] - T[:, 2, :])
    bary = np.concatenate([bary2, 1 - bary2.sum(1, keepdims=True)], axis=1)
    vals = lut[:, 2][tri.simplices[simp[ok]]]
    out[ok] = (bary * vals).sum(1)
    scale = (flow_rate / meta["flow_rate"]) * (
        np.asarray(visc, float) / meta["fluid_viscosity"]) * (
        wl / channel_width) ** 3
    # distance to the hull (normalised units) to skip boundary points
    return out * scale, tri, q, ambiguous


def hull_distance(tri, q):
    """Smallest |barycentric coordinate| magnitude to decide 'near hull'."""
    simp = tri.find_simplex(q, tol=0)
    d = np.full(len(q), np.inf)
    hull = tri.convex_hull
    P = tri.points
    for a, b in hull:
        pa, pb = P[a], P[b]
        ab = pb - pa
        t = np.clip(((q - pa) @ ab) / (ab @ ab), 0, 1)
        proj = pa + t[:, None] * ab
        d = np.minimum(d, np.linalg.norm(q - proj, axis=1))
    return d


# -- probe points: the cell complex of a LUT ------------------------------------

def probes_lut_space(lut, rs, max_simplices=None):
    """Points in (LUT x, LUT deform) space: nodes, simplex stencils, hull."""
    from scipy.spatial import Delaunay
    nx, ny = lut[:, 0].max(), lut[:, 1].max()
    pts = np.stack([lut[:, 0] / nx, lut[:, 1] / ny], axis=1)
    tri = Delaunay(pts)
    S = tri.simplices
    if max_simplices and len(S) > max_simplices:
        S = S[:: len(S) // max_simplices + 1]
    P = pts[S]                               # (ns, 3, 2)
    cent = P.mean(1)
    mids = np.concatenate([(P[:, 0] + P[:, 1]) / 2, (P[:, 1] + P[:, 2]) / 2,
                           (P[:, 0] + P[:, 2]) / 2])
    hull = tri.convex_hull
    hp = pts[hull]
    hm = hp.mean(1)
    c0 = pts.mean(0)
    inward = c0 - hm
    inward /= np.linalg.norm(inward, axis=1, keepdims=True)
    inside = hm + 1e-4 * inward
    outside = hm - 1e-4 * inward
    far = np.array([[1.2, 0.5], [0.5, 1.2], [-0.1, 0.5], [0.5, -0.1]])
    allp = np.concatenate([pts, cent, mids, inside, outside, far])
    kinds = (["node"] * len(pts) + ["centroid"] * len(cent)
             + ["midpoint"] * len(mids) + ["hull-in"] * len(inside)
             + ["hull-out"] * len(outside) + ["far"] * len(far))
    return allp * np.array([nx, ny]), np.array(kinds)


def jitter_lut(variant, featx="area_um"):
    """30-node user LUT in general position (no co-circular quadruples)."""
    rs = np.random.RandomState(7 + len(variant) + (featx == "volume"))
    rows = []
    xs = [30.0, 60.0, 100.0, 150.0, 220.0, 300.0]
    ds = [0.01, 0.03, 0.06, 0.10, 0.15]
    if featx == "volume":
        xs = [100.0, 300.0, 700.0, 1500.0, 3000.0, 5000.0]
    for a in xs:
        for d in ds:
            aa = a * (1 + 0.08 * rs.uniform(-1, 1))
            dd = d * (1 + 0.15 * rs.uniform(-1, 1))
            e = 0.08 / (dd + 0.004) + (aa / xs[2]) ** 1.3
            rows.append((aa, dd, round(e, 6)))
    return np.array(rows)


def user_meta(ident, featx="area_um"):
    return {"channel_width": 20.0, "channel_width_unit": "um",
            "flow_rate": 0.04, "flow_rate_unit": "uL/s",
            "fluid_viscosity": 15.0, "fluid_viscosity_unit": "mPa s",
            "identifier": ident, "method": "FEM", "model": "linear elastic",
            "dimensionality": "2Daxis", "authors": "vf", "date": "2026",
            "fluid_density": 1000.0, "solid_density": 1000.0,
            "column features": [featx, "deform", "emodulus"]}


def write_lut_file(path, arr, meta):
    m = dict(meta)
    cols = m.pop("column features")
    lines = ["# vf user LUT", "#", "# BEGIN METADATA"]
    lines += ["# " + ln for ln in json.dumps(m, indent=2,
                                             sort_keys=True).split("\n")]
    unit = "um^2" if cols[0] == "area_um" else "um^3"
    lines += ["# END METADATA", "#",
              f"# {cols[0]} [{unit}]\tdeform\temodulus [kPa]"]
    lines += [f"{a:.8e}\t{d:.8e}\t{e:.8e}" for a, d, e in arr]
    path.write_text("\n".join(lines) + "\n")


CONFIGS = [dict(channel_width=w, flow_rate=q, px_um=px, visc=eta)
           for w in (20.0, 30.0) for q in (0.04, 0.16)
           for px in (0.0, 0.34) for eta in (15.0, 4.2)]


def _lut_case(args):
    lut_id, cfg_idx, max_simp, scratch = args
    from dclab.features.emodulus import get_emodulus, load_lut
    out = []
    lut_arg, featx = _resolve_lut(lut_id, scratch)
    lut, meta = load_lut(lut_arg)
    lut = np.array(lut, dtype=float)
    rs = np.random.RandomState(1)
    P, kinds = probes_lut_space(lut, rs, max_simp)
    cnt = 0
    nt = 0
    for ci in cfg_idx:
        cfg = CONFIGS[ci]
        w, q, px, eta = (cfg["channel_width"], cfg["flow_rate"],
                         cfg["px_um"], cfg["visc"])
        p = 2 if featx == "area_um" else 3
        # map LUT-space probes back to the data space of this set-up:
        # x_data = x_lut * (W/W_lut)^p ; deform_data = deform_lut + delta
        xd = P[:, 0] * (w / meta["channel_width"]) ** p
        dd = P[:, 1].copy()
        if px:
            dd = dd + (px_delta_area(xd, px) if featx == "area_um"
                       else px_delta_volume(xd, px))
        kw = dict(deform=dd.copy(), medium=eta, channel_width=w,
                  flow_rate=q, px_um=px, temperature=None, visc_model=None,
                  lut_data=lut_arg)
        kw["area_um" if featx == "area_um" else "volume"] = xd.copy()
        case = {"kind": "lut", "lut": lut_id, "cfg": ci}
        tags = {"lut": lut_id.split(":")[0], "px": bool(px)}
        try:
            got = np.asarray(get_emodulus(**kw))
        except BaseException as e:
            out.append(violation(GE, "exception", case,
                                 f"{type(e).__name__}: {e}",
                                 dict(tags, exc=type(e).__name__)))
            continue
        exp, tri, qn, amb = reference(lut, meta, xd, dd, w, q, px, eta)
        dist = hull_distance(tri, qn)
        clear = (dist > 1e-5) & ~amb   # not within rounding of the hull
        cnt += int(clear.sum())
        nt += int((clear & ~np.isnan(exp)).sum())   # inside the support
        nan_mis = clear & (np.isnan(got) != np.isnan(exp))
        both = clear & ~np.isnan(got) & ~np.isnan(exp)
        val_mis = both & ~np.isclose(got, exp, rtol=RT(lut_id, 1e-9), atol=1e-12)
        # inputs must not be modified
        if not (np.array_equal(kw["deform"], dd) and np.array_equal(
                kw["area_um" if featx == "area_um" else "volume"], xd)):
            out.append(violation(GE, "input-modified", case,
                                 "caller arrays changed", tags))
        for name, mis in (("nan-mismatch", nan_mis),
                          ("wrong-value", val_mis)):
            if mis.any():
                i = int(np.flatnonzero(mis)[0])
                out.append(violation(
                    GE, name, dict(case, point=[float(xd[i]), float(dd[i])]),
                    f"{lut_id} cfg {cfg}: {int(mis.sum())} of "
                    f"{int(clear.sum())} probes; first: {kinds[i]} at "
                    f"({xd[i]!r}, {dd[i]!r}): got {got[i]!r} expected "
                    f"{exp[i]!r}", dict(tags, probe=str(kinds[i]))))
    return cnt, out, nt


def _node_case(args):
    """Every node of a built-in table, in the table's own set-up (channel
    width of the table, no pixelation correction): the value is the tabulated
    one times one common factor - also for the nodes on the edge of the
    support, which the probe cases above leave out as numerically ambiguous.
    Evaluated as one batch, and the extreme nodes once more one by one."""
    lut_id, = args
    from dclab.features.emodulus import get_emodulus, load_lut
    name = lut_id.partition(":")[2]
    lut, meta = load_lut(name)
    lut = np.array(lut)
    featx = "area_um" if "area_um" in meta["column features"] else "volume"
    out = []
    cnt = 0
    for setup in (dict(medium=10.0, flow_rate=0.04),
                  dict(medium="CellCarrier", flow_rate=0.16,
                       temperature=np.full(len(lut), 23.0),
                       visc_model="buyukurganci-2022")):
        kw = dict(deform=lut[:, 1].copy(), px_um=0, temperature=None,
                  visc_model=None, lut_data=name,
                  channel_width=meta.get("channel_width", 20.0))
        kw.update(setup)
        kw[featx] = lut[:, 0].copy()
        case0 = {"kind": "node", "lut": lut_id,
                 "setup": "numeric" if "visc_model" not in setup
                 else "per-event-temperature"}
        try:
            got = np.asarray(get_emodulus(**kw))
        except BaseException as e:
            out.append(violation(GE, "exception", case0,
                                 f"{type(e).__name__}: {e}",
                                 {"lut": name, "exc": type(e).__name__}))
            continue
        cnt += len(lut)
        ratio = got / lut[:, 2]
        fac = np.nanmedian(ratio)
        wrong = np.flatnonzero(np.isnan(got) | ~np.isclose(
            ratio, fac, rtol=1e-9, atol=0))
        for i in wrong[:25]:
            out.append(violation(
                GE, "nan-at-table-node" if np.isnan(got[i])
                else "wrong-value-at-table-node",
                dict(case0, node=int(i)),
                f"{name} node {int(i)} ({featx}={lut[i, 0]!r}, deform="
                f"{lut[i, 1]!r}, px_um=0, channel width of the table): got "
                f"{got[i]!r}, tabulated {lut[i, 2]!r} x common factor "
                f"{fac!r} ({len(wrong)} such nodes)",
                {"lut": name, "node": int(i)}))
        # the extreme nodes of each column, each on its own
        ext = sorted({int(f(lut[:, c])) for c in (0, 1)
                      for f in (np.argmin, np.argmax)})
        for i in ext:
            kw1 = dict(kw)
            kw1["deform"] = lut[i:i + 1, 1].copy()
            kw1[featx] = lut[i:i + 1, 0].copy()
            if isinstance(kw1["temperature"], np.ndarray):
                kw1["temperature"] = 23.0
            one = float(np.asarray(get_emodulus(**kw1)).ravel()[0])
            cnt += 1
            if not (one == got[i] or (np.isnan(one) and np.isnan(got[i]))
                    or np.isclose(one, got[i], rtol=1e-9, atol=0)):
                out.append(violation(
                    GE, "depends-on-batch", dict(case0, node=int(i)),
                    f"{name} extreme node {i} alone: {one!r}, in the batch "
                    f"of all nodes: {got[i]!r}", {"lut": name}))
    return cnt, out, cnt


def RT(lut_id, rtol):
    """Relative tolerance of a comparison: a table handed over in single
    precision is scaled and interpolated in single precision."""
    return 3e-5 if str(lut_id).startswith("tuple32") else rtol


def _resolve_lut(lut_id, scratch):
    from dclab.features.emodulus import load
    kind, _, name = lut_id.partition(":")
    if kind == "builtin":
        return name, "area_um"
    featx = "volume" if "vol" in name else "area_um"
    arr = jitter_lut(name, featx)
    meta = user_meta("VF-" + name, featx)
    if kind == "tuple":
        return (arr, meta), featx
    if kind == "tuple32":
        # the same table handed over in single precision
        return (arr.astype(np.float32), meta), featx
    path = scratch / f"c05_{name}.txt"
    if not path.exists():
        write_lut_file(path, arr, meta)
    if kind == "path":
        return path, featx
    ident = "VF-" + name
    if ident not in load.EXTERNAL_LUTS:
        load.register_lut(path, ident)
    return ident, featx


def _law_case(args):
    """Proportionality, geometric rescaling, batch/order independence,
    scalar vs per-event temperature."""
    lut_id, scratch = args
    from dclab.features.emodulus import get_emodulus, load_lut
    out = []
    cnt = 0
    lut_arg, featx = _resolve_lut(lut_id, scratch)
    lut, meta = load_lut(lut_arg)
    lut = np.array(lut)
    keyx = "area_um" if featx == "area_um" else "volume"
    cx = np.percentile(lut[:, 0], [30, 50, 60, 70, 40, 55])
    cd = np.percentile(lut[:, 1], [40, 50, 45, 60, 55, 35])
    base = dict(channel_width=20.0, flow_rate=0.04, px_um=0.34,
                medium=10.0, temperature=None, visc_model=None,
                lut_data=lut_arg)

    def E(x=cx, d=cd, **over):
        kw = dict(base)
        kw.update(over)
        kw[keyx] = np.array(x, float)
        kw["deform"] = np.array(d, float)
        return np.asarray(get_emodulus(**kw))
    case0 = {"kind": "law", "lut": lut_id}
    tags = {"lut": lut_id.split(":")[0]}

    def bad(symptom, detail, **t):
        out.append(violation(GE, symptom, dict(case0, law=symptom), detail,
                             dict(tags, **t)))
    e0 = E()
    cnt += 1
    if np.isnan(e0).all():
        bad("probe-outside-lut", f"{lut_id}: all probes NaN")
        return cnt, out
    if not np.allclose(E(medium=20.0), 2 * e0, rtol=RT(lut_id, 1e-12), equal_nan=True):
        bad("not-proportional-to-viscosity", "E(2 eta) != 2 E(eta)")
    if not np.allclose(E(flow_rate=0.08), 2 * e0, rtol=RT(lut_id, 1e-12),
                       equal_nan=True):
        bad("not-proportional-to-flow-rate", "E(2 Q) != 2 E(Q)")
    for s in (1.5, 2.0):
        p = 2 if featx == "area_um" else 3
        es = E(x=cx * s ** p, channel_width=20.0 * s, flow_rate=0.04 * s ** 3,
               px_um=0.34 * s)
        cnt += 1
        if not np.allclose(es, e0, rtol=RT(lut_id, 1e-9), equal_nan=True):
            bad("not-invariant-under-rescaling",
                f"s={s}: {es} vs {e0}")
    # batch compositions: the value of an event does not depend on the
    # other events of the call
    n = len(cx)
    for bits in range(1, 2 ** n):
        idx = [i for i in range(n) if bits >> i & 1]
        eb = E(x=cx[idx], d=cd[idx])
        cnt += 1
        if not np.array_equal(eb, e0[idx], equal_nan=True):
            bad("depends-on-batch", f"subset {idx}: {eb} vs {e0[idx]}")
            break
    # extrapolation fills in events outside the table's support only: the
    # events inside keep their value, whatever else is in the batch
    dmax = float(lut[:, 1].max())
    # (supported probes above the extrapolation threshold of 0.05: mid-points
    # of pairs of table rows, hence inside the hull)
    hi = lut[lut[:, 1] > 0.055]
    hi = hi[np.argsort(hi[:, 1], kind="stable")]
    sel = hi[np.linspace(0, len(hi) - 1, 6).astype(int)]
    mid = (sel[:-1] + sel[1:]) / 2
    nin = n + len(mid)
    xo = np.concatenate([cx, mid[:, 0], [np.median(lut[:, 0])] * 2,
                         [lut[:, 0].min()]])
    do = np.concatenate([cd, mid[:, 1], [dmax * 1.08, dmax * 1.2], [0.001]])
    import warnings
    with warnings.catch_warnings():
        warnings.simplefilter("ignore")
        plain = E(x=xo, d=do)
        inside = np.isfinite(plain)
        for bits in range(1, 2 ** 3):
            idx = list(range(nin)) + [nin + i for i in range(3)
                                      if bits >> i & 1]
            for order in (idx, idx[::-1]):
                ex = E(x=xo[order], d=do[order], extrapolate=True)
                cnt += 1
                ins = inside[order]
                if not np.array_equal(ex[ins], plain[order][ins]):
                    bad("extrapolation-changes-supported-events",
                        f"events {order}: extrapolate=True gives "
                        f"{ex[ins]} for events inside the table "
                        f"(extrapolate=False: {plain[order][ins]})")
                    break
    if not inside[n:nin].any() or inside[nin:nin + 2].any():
        bad("probe-outside-lut", f"{lut_id}: extrapolation probes are not "
            f"in/out as intended: {inside.tolist()}")
    # call order: every ordered pair / triple of distinct configurations
    pool = [dict(), dict(medium=20.0), dict(channel_width=30.0),
            dict(flow_rate=0.16), dict(px_um=0.0),
            dict(medium="CellCarrier", temperature=23.0,
                 visc_model="buyukurganci-2022")]
    alone = [E(**c) for c in pool]
    for seq in itertools.permutations(range(len(pool)), 2):
        for k in seq:
            r = E(**pool[k])
            cnt += 1
            if not np.array_equal(r, alone[k], equal_nan=True):
                bad("depends-on-earlier-calls",
                    f"call sequence {seq}: config {k} gives {r} instead of "
                    f"{alone[k]}")
    # temperature: scalar vs identical per-event array vs varying array
    # ... in every set-up (the probes are moved along with the channel)
    temps = np.array([22.0, 23.0, 24.0, 25.0, 23.5, 22.5])
    pw = 2 if featx == "area_um" else 3
    for setup in (dict(), dict(channel_width=30.0), dict(flow_rate=0.16),
                  dict(px_um=0.0), dict(channel_width=40.0, px_um=0.0,
                                        flow_rate=0.32)):
        for med, vm in (("CellCarrier", "buyukurganci-2022"),
                        ("CellCarrier", "herold-2017"),
                        ("CellCarrier B", "buyukurganci-2022"),
                        ("0.83% MC-PBS", "buyukurganci-2022"),
                        ("water", "kestin-1978")):
            tk = dict(medium=med, visc_model=vm, **setup)
            xs = cx * (setup.get("channel_width", 20.0) / 20.0) ** pw
            # a named medium stands for its viscosity in this set-up
            from dclab.features.emodulus.viscosity import get_viscosity
            eta = get_viscosity(medium=med, model=vm, temperature=23.0,
                                channel_width=setup.get("channel_width",
                                                        20.0),
                                flow_rate=setup.get("flow_rate", 0.04))
            tkn = dict(tk, medium=float(eta), visc_model=None)
            by_name = E(x=xs, temperature=23.0, **tk)
            by_number = E(x=xs, temperature=None, **tkn)
            cnt += 1
            if not np.allclose(by_name, by_number, rtol=RT(lut_id, 1e-9),
                               equal_nan=True):
                bad("medium-differs-from-its-viscosity",
                    f"{setup} {med}/{vm} at 23 degC: {by_name} vs the same "
                    f"call with the numeric viscosity {eta}: {by_number}")
            per_event = E(x=xs, temperature=temps, **tk)
            single = np.array([E(x=xs[i:i + 1], d=cd[i:i + 1],
                                 temperature=float(temps[i]), **tk)[0]
                               for i in range(n)])
            cnt += n
            if not np.isfinite(single).any():
                bad("probe-outside-lut", f"{lut_id} {setup}: all NaN")
            if not np.allclose(per_event, single, rtol=RT(lut_id, 1e-9), equal_nan=True):
                bad("per-event-temperature-differs",
                    f"{setup} {vm}: array temperature {per_event} vs "
                    f"one-by-one scalar {single}")
            same_arr = E(x=xs, temperature=np.full(n, 23.0), **tk)
            scal = E(x=xs, temperature=23.0, **tk)
            if not np.allclose(same_arr, scal, rtol=RT(lut_id, 1e-9), equal_nan=True):
                bad("per-event-temperature-differs",
                    f"{setup} {vm}: identical array {same_arr} vs scalar "
                    f"{scal}")
    # registered / given tables are not modified
    lut2, meta2 = load_lut(lut_arg)
    if not np.array_equal(np.array(lut2), lut) or meta2 != meta:
        bad("lut-modified", "load_lut returns different data after calls")
    if isinstance(lut_arg, tuple):
        arr0 = jitter_lut(lut_id.partition(":")[2], featx)
        if not np.array_equal(lut_arg[0], arr0.astype(lut_arg[0].dtype)):
            bad("lut-modified", "the (array, meta) tuple passed in changed")
    return cnt, out


def _large_batch_case(args):
    """One call with 70001 / 200003 events (a pool of supported probes
    repeated, a few unsupported ones in between): every event gets the value
    it gets in a call of its own pool, at the start, in the middle and at
    the very end of the batch - global and per-event temperature."""
    lut_id, scratch = args
    from dclab.features.emodulus import get_emodulus, load_lut
    out = []
    cnt = 0
    lut_arg, featx = _resolve_lut(lut_id, scratch)
    lut, meta = load_lut(lut_arg)
    lut = np.array(lut, dtype=float)
    keyx = "area_um" if featx == "area_um" else "volume"
    px_ = np.percentile(lut[:, 0], [30, 50, 60, 70, 40, 55, 45])
    pd_ = np.percentile(lut[:, 1], [40, 50, 45, 60, 55, 35, 50])
    # one probe far outside the table
    px_ = np.append(px_, lut[:, 0].max() * 3)
    pd_ = np.append(pd_, 0.001)
    case0 = {"kind": "large-batch", "lut": lut_id}
    for n in (70001, 200003):
        reps = -(-n // len(px_))
        x = np.tile(px_, reps)[:n]
        d = np.tile(pd_, reps)[:n]
        for tname, temp in (("scalar", 23.0),
                            ("per-event", 22.0 + (np.arange(n) % 5))):
            cnt += 1
            kw = dict(medium="CellCarrier", channel_width=20.0,
                      flow_rate=0.04, px_um=0.34,
                      visc_model="buyukurganci-2022", lut_data=lut_arg)
            try:
                big_ = np.asarray(get_emodulus(
                    deform=d.copy(), temperature=temp, **{keyx: x.copy()},
                    **kw))
                if tname == "scalar":
                    small = np.asarray(get_emodulus(
                        deform=pd_.copy(), temperature=23.0,
                        **{keyx: px_.copy()}, **kw))
                    want = np.tile(small, reps)[:n]
                else:
                    # per temperature value, the pool on its own
                    want = np.empty(n)
                    for t in range(5):
                        small = np.asarray(get_emodulus(
                            deform=pd_.copy(), temperature=22.0 + t,
                            **{keyx: px_.copy()}, **kw))
                        idx = np.flatnonzero(np.arange(n) % 5 == t)
                        want[idx] = small[idx % len(px_)]
            except Exception as e:
                out.append(violation(
                    GE, "exception", dict(case0, n=n, temperature=tname),
                    f"{type(e).__name__}: {e}",
                    {"lut": lut_id.split(":")[0], "exc": type(e).__name__}))
                continue
            okv = np.isclose(big_, want, rtol=RT(lut_id, 1e-9), atol=0,
                             equal_nan=True)
            if not okv.all():
                badi = np.flatnonzero(~okv)
                out.append(violation(
                    GE, "depends-on-batch", dict(case0, n=n,
                                                 temperature=tname),
                    f"{lut_id}, one call with {n} events ({tname} "
                    f"temperature): {badi.size} events differ from the "
                    f"call with their pool alone, first at "
                    f"{badi[:3].tolist()}, last at {badi[-3:].tolist()}: "
                    f"{big_[badi[-1]]!r} vs {want[badi[-1]]!r}",
                    {"lut": lut_id.split(":")[0], "scope": "large-input"}))
    return cnt, out, cnt


def _iso_case(args):
    """The isoelasticity lines that dclab ships for a table, converted to a
    set-up (channel width, flow rate, viscosity, with / without the
    pixelation offset) with the same scaling laws: the Young's modulus of
    the points of a line, computed for that set-up, relates to the line's
    own modulus by the same factor in every set-up (the factor is the
    interpolation difference between line and table, not 1).  A joint
    invariance of `isoelastics.convert` / `add_px_err` and get_emodulus."""
    lid, = args
    from dclab import isoelastics as iso
    from dclab.features.emodulus import get_emodulus
    out = []
    cnt = 0
    inst = iso.get_default()
    case0 = {"kind": "iso", "lut": lid}
    setups = [(20.0, 0.04, 15.0), (20.0, 0.08, 15.0), (20.0, 0.04, 5.0),
              (30.0, 0.16, 6.0), (40.0, 0.32, 3.0), (15.0, 0.016, 25.0)]
    ref = None
    for w, q, eta in setups:
        for px in (False, True):
            cnt += 1
            case = dict(case0, setup=[w, q, eta], px=px)
            try:
                lines = inst.get(col1="area_um", col2="deform",
                                 lut_identifier=lid, channel_width=w,
                                 flow_rate=q, viscosity=eta, add_px_err=px,
                                 px_um=0.34)
                ratio = []
                for ln in lines:
                    ln = np.asarray(ln)
                    e = np.asarray(get_emodulus(
                        area_um=ln[:, 0].copy(), deform=ln[:, 1].copy(),
                        medium=eta, channel_width=w, flow_rate=q,
                        px_um=0.34 if px else 0.0, temperature=None,
                        lut_data=lid, visc_model=None))
                    ratio.append(e / ln[:, 2])
                ratio = np.concatenate(ratio)
            except Exception as e:
                out.append(violation(
                    GE, "exception", case, f"{type(e).__name__}: {e}",
                    {"lut": "iso", "exc": type(e).__name__}))
                continue
            if ref is None:
                ref = ratio
                fin = np.isfinite(ratio)
                if fin.mean() < 0.9 or np.median(
                        np.abs(ratio[fin] - 1)) > 0.05:
                    out.append(violation(
                        GE, "isoelastics-off-the-table", case,
                        f"{lid}: only {fin.mean():.2f} of the line points "
                        f"are supported / median deviation "
                        f"{np.median(np.abs(ratio[fin] - 1)):.3f}",
                        {"lut": "iso"}))
                continue
            # points within rounding of the hull may flip between NaN and
            # a value; everywhere else the factor is the same
            both = np.isfinite(ratio) & np.isfinite(ref)
            flips = int((np.isfinite(ratio) != np.isfinite(ref)).sum())
            if flips > 0.01 * len(ref) or not np.allclose(
                    ratio[both], ref[both], rtol=1e-6, atol=0):
                worst = np.max(np.abs(ratio[both] / ref[both] - 1)) \
                    if both.any() else np.nan
                out.append(violation(
                    GE, "isoelastics-not-invariant-under-rescaling", case,
                    f"{lid} set-up (W={w}, Q={q}, eta={eta}, px={px}): "
                    f"E(line points)/E(line) differs from the 20 um "
                    f"set-up by up to {worst:.3g} (relative), {flips} "
                    f"points changed support", {"lut": "iso", "px": px}))
    return cnt, out, cnt


def _replace_case(args):
    """A user LUT replaced on disk under the same path / an identifier
    registered again for another file: the next call uses the new table."""
    scratch, = args
    from dclab.features.emodulus import get_emodulus, load
    out = []
    cnt = 0
    arrA = jitter_lut("replA")
    arrB = arrA.copy()
    arrB[:, 2] *= 2.0
    meta = user_meta("VF-repl")
    x = np.percentile(arrA[:, 0], [30, 50, 70])
    d = np.percentile(arrA[:, 1], [40, 50, 60])
    kw = dict(area_um=x, deform=d, medium=10.0, channel_width=20.0,
              flow_rate=0.04, px_um=0.34, temperature=None, visc_model=None)
    p1 = scratch / "c05_repl.txt"
    p2 = scratch / "c05_repl2.txt"
    for how in ("path", "identifier"):
        cnt += 1
        case = {"kind": "replace", "how": how}
        try:
            write_lut_file(p1, arrA, meta)
            if how == "path":
                e1 = np.asarray(get_emodulus(lut_data=p1, **kw))
                write_lut_file(p1, arrB, meta)
                e2 = np.asarray(get_emodulus(lut_data=p1, **kw))
            else:
                load.EXTERNAL_LUTS.pop("VF-repl", None)
                load.register_lut(p1, "VF-repl")
                e1 = np.asarray(get_emodulus(lut_data="VF-repl", **kw))
                write_lut_file(p2, arrB, meta)
                load.EXTERNAL_LUTS.pop("VF-repl", None)
                load.register_lut(p2, "VF-repl")
                e2 = np.asarray(get_emodulus(lut_data="VF-repl", **kw))
            if not np.allclose(e2, 2 * e1, rtol=1e-12, equal_nan=True) or \
                    np.isnan(e1).all():
                out.append(violation(
                    GE, "depends-on-earlier-calls", case,
                    f"LUT replaced via {how}: {e2} is not twice {e1}",
                    {"lut": "replaced", "how": how}))
        except BaseException as e:
            out.append(violation(GE, "exception", case,
                                 f"{type(e).__name__}: {e}",
                                 {"lut": "replaced",
                                  "exc": type(e).__name__}))
    return cnt, out


LUTS = ["builtin:LE-2D-FEM-19", "builtin:HE-2D-FEM-22",
        "builtin:HE-3D-FEM-22", "tuple:userA", "path:userB", "ident:userC",
        "tuple:uservol", "tuple32:userA"]


def run(ctx):
    scratch = ctx.scratch
    items = []
    for lid in LUTS:
        big = lid.startswith("builtin")
        cfgs = list(range(len(CONFIGS)))
        per = 2 if big else 16
        for k in range(0, len(cfgs), per):
            items.append((lid, cfgs[k:k + per],
                          None, scratch))
    res = par.pmap(_lut_case, items)
    res += par.pmap(_law_case, [(lid, scratch) for lid in LUTS])
    res += par.pmap(_replace_case, [(scratch,)])
    res += par.pmap(_large_batch_case, [
        (lid, scratch) for lid in ("builtin:LE-2D-FEM-19", "tuple:userA",
                                   "builtin:HE-3D-FEM-22")])
    res += par.pmap(_iso_case, [(lid,) for lid in (
        "LE-2D-FEM-19", "HE-2D-FEM-22", "HE-3D-FEM-22")])
    res += par.pmap(_node_case, [(lid,) for lid in LUTS
                                 if lid.startswith("builtin:")])
    viols = []
    cnt = 0
    nontriv = 0
    for r in res:
        cnt += r[0]
        viols.extend(r[1])
        nontriv += r[2] if len(r) > 2 else r[0]
    cov = {"evaluations": cnt, "distinct_nontrivial": nontriv,
           "luts": LUTS, "configurations": len(CONFIGS),
           "rule": "probe points = every LUT node, every Delaunay simplex "
                   "(centroid + 3 edge mid-points), every hull edge "
                   "(a point 1e-4 inside / outside) and 4 far points, "
                   "mapped into the data space of each of 16 set-up "
                   "configurations (channel width x flow rate x pixel size "
                   "x viscosity); probes within 1e-5 (normalised units) of the hull are not "
                   "counted; non-trivial = probe whose reference value is "
                   "finite, i.e. inside the support (law / batch / "
                   "replacement cases use interior points only); plus laws, all 63 batch subsets, all ordered "
                   "call pairs of 6 configurations, temperature forms",
           "samples": [{"lut": "builtin:LE-2D-FEM-19", "cfg": CONFIGS[5]},
                       {"law": "not-invariant-under-rescaling", "s": 1.5},
                       {"lut": "tuple:uservol", "probe": "hull-out"}],
           "exhaustive": True}
    return {"level": LEVEL, "coverage": cov, "violations": viols,
            "assumptions": [
                "qhull (scipy.spatial.Delaunay) is trusted for the "
                "triangulation of the normalised table; user LUTs are in "
                "general position",
                "viscosity of known media is taken from dclab's "
                "get_viscosity (covered by the test-suite)",
                "extrapolate=True: only that supported events keep their value"]}


def replay(case, ctx):
    if case["kind"] == "large-batch":
        return [v for v in _large_batch_case((case["lut"], ctx.scratch))[1]
                if v["case"] == case]
    if case["kind"] == "iso":
        return [v for v in _iso_case((case["lut"],))[1]
                if v["case"] == case]
    if case["kind"] == "replace":
        _, vs = _replace_case((ctx.scratch,))
        return [v for v in vs if v["case"].get("how") == case.get("how")]
    if case["kind"] == "node":
        _, vs, _ = _node_case((case["lut"],))
        return [v for v in vs if v["case"] == case]
    if case["kind"] == "lut":
        _, vs, _ = _lut_case((case["lut"], [case["cfg"]], None, ctx.scratch))
        return vs
    _, vs = _law_case((case["lut"], ctx.scratch))
    return [v for v in vs if v["case"].get("law") == case.get("law")]
