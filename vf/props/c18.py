"""C18 -- contour-, image- and fluorescence-derived features obey their
definitions.

E3: *all* 8-connected, hole-free masks with >= 2 pixels inside a 4x4 box,
placed in the interior and touching every border of a frame; feature laws
under translations / axis swap / the 8 lattice symmetries; a radius ladder of
discretised spheres and ellipsoids; brightness for every container type of
the offset; all 3^6 spill matrices over {0, 0.1, 0.3}.
"""
import itertools

import numpy as np

from .. import par
from ..runner import violation

PROPERTY = "C18"
LEVEL = "exploration"
FR = 9          # frame size
BOX = 4


_MASKS = {}


def all_masks(box=BOX):
    """Every 8-connected, hole-free subset (>= 2 pixels) of a box."""
    if box not in _MASKS:
        _MASKS[box] = _all_masks(box)
    return _MASKS[box]


def _all_masks(box):
    from scipy import ndimage
    out = []
    s8 = np.ones((3, 3), int)
    for bits in range(1, 2 ** (box * box)):
        m = np.array([(bits >> i) & 1 for i in range(box * box)],
                     bool).reshape(box, box)
        if m.sum() < 2:
            continue
        # canonical position: touches top row and left column of the box
        if not m[0].any() or not m[:, 0].any():
            continue
        if ndimage.label(m, structure=s8)[1] != 1:
            continue
        # hole-free: background (padded) is 4-connected
        bg = np.pad(~m, 1, constant_values=True)
        if ndimage.label(bg)[1] != 1:
            continue
        out.append(m)
    return out


def place(m, where):
    f = np.zeros((FR, FR), bool)
    h, w = m.shape
    r = np.flatnonzero(m.any(1))
    c = np.flatnonzero(m.any(0))
    m = m[r[0]:r[-1] + 1, c[0]:c[-1] + 1]
    h, w = m.shape
    y0, x0 = {"interior": (2, 3), "top": (0, 3), "bottom": (FR - h, 2),
              "left": (3, 0), "right": (2, FR - w),
              "corner": (0, 0)}[where]
    f[y0:y0 + h, x0:x0 + w] = m
    return f


def refill(cont, shape):
    """Contour pixels plus everything enclosed (even-odd, exact ints)."""
    from scipy import ndimage
    r = np.zeros(shape, bool)
    r[cont[:, 1], cont[:, 0]] = True
    return ndimage.binary_fill_holes(r)


def _mask_case(args):
    chunk, nchunks, places = args
    from dclab.features.contour import get_contour
    from dclab.features import inert_ratio
    masks = all_masks()
    out = []
    cnt = 0
    for mi in range(chunk, len(masks), nchunks):
        m = masks[mi]
        feats_ref = None
        for where in places:
            f = place(m, where)
            cnt += 1
            case = {"kind": "mask", "mask": m.astype(int).tolist(),
                    "where": where}
            tags = {"where": "border" if where != "interior" else "interior"}
            try:
                cont = get_contour(f)
            except BaseException as e:
                out.append(violation(
                    "dclab.features.contour:get_contour", "exception", case,
                    f"{type(e).__name__}: {e}",
                    dict(tags, exc=type(e).__name__)))
                continue
            inside = f[cont[:, 1], cont[:, 0]].all() if len(cont) else False
            rf = refill(cont, f.shape) if len(cont) else None
            if not inside or rf is None or not np.array_equal(rf, f):
                out.append(violation(
                    "dclab.features.contour:get_contour",
                    "refill-differs-from-mask", case,
                    f"mask placed at {where}:\n{f.astype(int)}\ncontour "
                    f"{cont.tolist()}\nrefilled\n"
                    f"{None if rf is None else rf.astype(int)}", tags))
                continue
            # the same binary image in other encodings (0/255 as stored in
            # .rtdc files, a label image, floats)
            if mi % 5 == 0:
                for enc_name, enc in (("uint8-255", f.astype(np.uint8) * 255),
                                      ("int-label-3", f.astype(int) * 3),
                                      ("float", f.astype(float))):
                    try:
                        c2 = get_contour(enc)
                        same = np.array_equal(c2, cont)
                    except BaseException as e:
                        same = False
                        c2 = f"{type(e).__name__}: {e}"
                    if not same:
                        out.append(violation(
                            "dclab.features.contour:get_contour",
                            "depends-on-mask-encoding", case,
                            f"mask encoded as {enc_name}: contour "
                            f"{np.asarray(c2).tolist()!r:.300} instead of "
                            f"{cont.tolist()!r:.300}",
                            dict(tags, encoding=enc_name)))
                        break
            if where not in ("interior", "bottom"):
                continue
            # translation invariance of contour features (float contours,
            # principal ratio first: the functions must not modify their
            # input, or every later value is computed from something else)
            if len(cont) >= 4:
                cf = cont.astype(np.float64)
                keep = cf.copy()
                prnc0 = inert_ratio.get_inert_ratio_prnc(cf)
                vals = (inert_ratio.cont_moments_cv(cf) or {}).get("m00"), \
                    inert_ratio.get_inert_ratio_raw(cf), \
                    inert_ratio.get_inert_ratio_cvx(cf), prnc0
                inert_ratio.get_tilt(cf)
                if not np.array_equal(cf, keep):
                    out.append(violation(
                        "dclab.features.inert_ratio", "input-modified", case,
                        "a float64 contour passed to the inertia functions "
                        "was changed in place", tags))
                ints = (inert_ratio.cont_moments_cv(cont) or {}).get(
                    "m00"), inert_ratio.get_inert_ratio_raw(cont), \
                    inert_ratio.get_inert_ratio_cvx(cont), \
                    inert_ratio.get_inert_ratio_prnc(cont)
                if not np.allclose(np.array(vals, float),
                                   np.array(ints, float), rtol=1e-6,
                                   equal_nan=True):
                    out.append(violation(
                        "dclab.features.inert_ratio",
                        "depends-on-contour-dtype", case,
                        f"float contour {vals} vs int contour {ints}", tags))
                if feats_ref is None:
                    feats_ref = vals
                elif not np.allclose(
                        np.array(vals, float), np.array(feats_ref, float),
                        rtol=1e-9, equal_nan=True):
                    out.append(violation(
                        "dclab.features.inert_ratio", "not-translation-"
                        "invariant", case, f"{vals} vs {feats_ref}", tags))
        # axis swap and lattice symmetries (interior placement)
        f = place(m, "interior")
        try:
            cont = get_contour(f)
            if len(cont) < 4:
                continue
            raw = inert_ratio.get_inert_ratio_raw(cont)
            prnc = inert_ratio.get_inert_ratio_prnc(cont)
            ft = f.T.copy()
            ct = get_contour(ft)
            raw_t = inert_ratio.get_inert_ratio_raw(ct)
            case = {"kind": "mask", "mask": m.astype(int).tolist(),
                    "where": "symmetry"}
            if np.isfinite(raw) and np.isfinite(raw_t) and raw > 0 and \
                    not np.isclose(raw * raw_t, 1.0, rtol=1e-9):
                out.append(violation(
                    "dclab.features.inert_ratio:get_inert_ratio_raw",
                    "axis-swap-not-reciprocal", case,
                    f"{raw} * {raw_t} != 1", {"where": "symmetry"}))
            if np.isfinite(prnc):
                if prnc < 1 - 1e-9:
                    out.append(violation(
                        "dclab.features.inert_ratio:get_inert_ratio_prnc",
                        "principal-ratio-below-one", case, f"{prnc}",
                        {"where": "symmetry"}))
                for k in range(4):
                    for flip in (False, True):
                        g = np.rot90(f, k)
                        if flip:
                            g = g[:, ::-1]
                        g = np.ascontiguousarray(g)
                        p2 = inert_ratio.get_inert_ratio_prnc(get_contour(g))
                        if not np.isclose(p2, prnc, rtol=1e-7):
                            out.append(violation(
                                "dclab.features.inert_ratio:"
                                "get_inert_ratio_prnc",
                                "not-symmetry-invariant", case,
                                f"rot90 x{k} flip={flip}: {p2} vs {prnc}",
                                {"where": "symmetry"}))
            cnt += 1
        except BaseException as e:
            out.append(violation(
                "dclab.features.inert_ratio", "exception",
                {"kind": "mask", "mask": m.astype(int).tolist(),
                 "where": "symmetry"},
                f"{type(e).__name__}: {e}", {"where": "symmetry",
                                             "exc": type(e).__name__}))
    return cnt, out


def _volume_case(args):
    from dclab.features.contour import get_contour
    from dclab.features.volume import get_volume
    out = []
    cnt = 0
    errs = {}
    for (ax, ay) in ((1.0, 1.0), (1.5, 1.0), (1.0, 0.7)):
        prev = None
        for r in (5, 10, 20, 40, 80):
            n = int(2 * r * max(ax, ay)) + 8
            yy, xx = np.mgrid[:n, :n]
            cx = cy = n / 2.0 - 0.5
            mask = ((xx - cx) / (r * ax)) ** 2 + (
                (yy - cy) / (r * ay)) ** 2 <= 1.0
            cont = get_contour(mask)
            pix = 0.34
            cnt += 1
            case = {"kind": "volume", "r": r, "ax": ax, "ay": ay}
            v = get_volume(cont, pos_x=cx * pix, pos_y=cy * pix, pix=pix)
            v2 = get_volume(cont, pos_x=cx * 2 * pix, pos_y=cy * 2 * pix,
                            pix=2 * pix)
            if not np.isclose(v2, 8 * v, rtol=1e-9):
                out.append(violation(
                    "dclab.features.volume:get_volume", "not-cubic-in-pix",
                    case, f"{v2} != 8 * {v}", {"law": "pix3"}))
            vrev = get_volume(cont[::-1], pos_x=cx * pix, pos_y=cy * pix,
                              pix=pix)
            if not np.isclose(vrev, -v, rtol=1e-9):
                out.append(violation(
                    "dclab.features.volume:get_volume",
                    "orientation-sign", case, f"{vrev} != -{v}",
                    {"law": "orientation"}))
            vfix = get_volume(cont[::-1], pos_x=cx * pix, pos_y=cy * pix,
                              pix=pix, fix_orientation=True)
            if not np.isclose(vfix, abs(v), rtol=1e-9):
                out.append(violation(
                    "dclab.features.volume:get_volume",
                    "fix-orientation", case, f"{vfix} != |{v}|",
                    {"law": "orientation"}))
            # rotation about the x axis: semi-axes (r*ax, r*ay, r*ay)
            exact = 4 / 3 * np.pi * (r * ax) * (r * ay) ** 2 * pix ** 3
            err = abs(abs(v) - exact) / exact
            errs[(ax, ay, r)] = err
            # the contour runs through the centres of the boundary pixels:
            # the radius is underestimated by about half a pixel
            if err > 2.5 / (r * min(ax, ay)):
                out.append(violation(
                    "dclab.features.volume:get_volume",
                    "far-from-analytic-volume", case,
                    f"relative error {err:.4f} at r={r}", {"law": "analytic"}))
            if prev is not None and err > prev * 1.05 + 1e-4:
                out.append(violation(
                    "dclab.features.volume:get_volume",
                    "error-not-decreasing", case,
                    f"error {err:.5f} after {prev:.5f}", {"law": "analytic"}))
            prev = err
    return cnt, out


def _bright_case(args):
    chunk, nchunks, scratch = args
    import h5py
    from dclab.features import bright, bright_bc, bright_perc
    masks = all_masks(3) + all_masks(4)[::97]
    rs = np.random.RandomState(3)
    images = [rs.randint(0, 255, (FR, FR)).astype(np.uint8),
              np.full((FR, FR), 7, np.uint8),
              (np.arange(FR * FR).reshape(FR, FR) % 256).astype(np.uint8)]
    # 16-bit cameras: gray values beyond the int16 range
    images.append(rs.randint(30000, 65535, (FR, FR)).astype(np.uint16))
    images.append(rs.randint(0, 2 ** 20, (FR, FR)).astype(np.int32))
    bgs = [rs.randint(0, 255, (FR, FR)).astype(np.uint8),
           np.zeros((FR, FR), np.uint8),
           rs.randint(0, 40000, (FR, FR)).astype(np.uint16)]
    out = []
    cnt = 0
    for mi in range(chunk, len(masks), nchunks):
        f = place(masks[mi], "interior")
        for ii, (img, bg) in enumerate(itertools.product(images, bgs)):
            cnt += 1
            case = {"kind": "bright", "mask": masks[mi].astype(int).tolist(),
                    "img": ii}
            vals = img[f].astype(float)
            a, s = bright.get_bright(f, img)
            if not (np.isclose(a, vals.mean()) and np.isclose(s, vals.std())):
                out.append(violation(
                    "dclab.features.bright:get_bright", "wrong-statistic",
                    case, f"{a},{s} vs {vals.mean()},{vals.std()}",
                    {"func": "bright"}))
            diff = img.astype(int)[f] - bg.astype(int)[f]
            for off_name, off in (("none", None), ("scalar", 3.5),
                                  ("zero", 0.0)):
                o = 0.0 if off is None else off
                a, s = bright_bc.get_bright_bc(f, img, bg, bg_off=off)
                if not (np.isclose(a, diff.mean() - o)
                        and np.isclose(s, diff.std())):
                    out.append(violation(
                        "dclab.features.bright_bc:get_bright_bc",
                        "wrong-statistic", case,
                        f"offset {off_name}: {a},{s} vs "
                        f"{diff.mean() - o},{diff.std()}",
                        {"func": "bright_bc", "off": off_name}))
                # every selection of returned metrics
                for rd, want in (("avg", [diff.mean() - o]),
                                 ("sd", [diff.std()]),
                                 ("sd,avg", [diff.mean() - o, diff.std()])):
                    got = bright_bc.get_bright_bc(f, img, bg, bg_off=off,
                                                  ret_data=rd)
                    got = list(got) if isinstance(got, (tuple, list)) \
                        else [got]
                    if len(got) != len(want) or not np.allclose(got, want):
                        out.append(violation(
                            "dclab.features.bright_bc:get_bright_bc",
                            "wrong-statistic", case,
                            f"ret_data={rd!r}, offset {off_name}: {got} vs "
                            f"{want}",
                            {"func": "bright_bc", "off": off_name,
                             "ret_data": rd}))
                if off is None:
                    for rd, want in (("avg", [vals.mean()]),
                                     ("sd", [vals.std()])):
                        got = bright.get_bright(f, img, ret_data=rd)
                        got = list(got) if isinstance(got, (tuple, list)) \
                            else [got]
                        if len(got) != len(want) or not np.allclose(got,
                                                                    want):
                            out.append(violation(
                                "dclab.features.bright:get_bright",
                                "wrong-statistic", case,
                                f"ret_data={rd!r}: {got} vs {want}",
                                {"func": "bright", "ret_data": rd}))
                p10, p90 = bright_perc.get_bright_perc(f, img, bg,
                                                       bg_off=off)
                e10, e90 = np.percentile(diff, [10, 90])
                if not (np.isclose(p10, e10 - o) and np.isclose(p90,
                                                                e90 - o)):
                    out.append(violation(
                        "dclab.features.bright_perc:get_bright_perc",
                        "wrong-statistic", case,
                        f"offset {off_name}: {p10},{p90} vs "
                        f"{e10 - o},{e90 - o}",
                        {"func": "bright_perc", "off": off_name}))
    # per-event containers for the offset
    if chunk == 0:
        k = 4
        ms = [place(m, "interior") for m in all_masks(3)[:k]]
        ims = [images[0]] * k
        bg_ = [bgs[0]] * k
        offs = np.array([0.0, 1.5, -2.0, 10.0])
        diff = [images[0].astype(int)[m] - bgs[0].astype(int)[m] for m in ms]
        h5p = scratch / "c18_off.h5"
        with h5py.File(h5p, "w") as h5:
            h5["off"] = offs
        h5f = h5py.File(h5p, "r")
        containers = {"list": list(offs), "ndarray": offs,
                      "h5dataset": h5f["off"], "scalar": 2.5}
        for cname, off in containers.items():
            cnt += 1
            case = {"kind": "bright-containers", "container": cname}
            ov = np.full(k, off) if cname == "scalar" else offs
            for fname, fn, ref in (
                    ("bright_bc", lambda o: bright_bc.get_bright_bc(
                        ms, ims, bg_, bg_off=o)[0],
                     np.array([d.mean() for d in diff]) - ov),
                    ("bright_perc", lambda o: bright_perc.get_bright_perc(
                        ms, ims, bg_, bg_off=o)[0],
                     np.array([np.percentile(d, 10) for d in diff]) - ov)):
                try:
                    got = np.asarray(fn(off), float)
                    if not np.allclose(got, ref):
                        out.append(violation(
                            f"dclab.features.{fname}:get_{fname}",
                            "wrong-statistic", case,
                            f"{cname} offsets: {got} vs {ref}",
                            {"func": fname, "off": cname}))
                except BaseException as e:
                    out.append(violation(
                        f"dclab.features.{fname}:get_{fname}", "exception",
                        case, f"bg_off given as {cname}: "
                        f"{type(e).__name__}: {e}",
                        {"func": fname, "off": cname,
                         "exc": type(e).__name__}))
        h5f.close()
        h5p.unlink()
    return cnt, out


def _lazy_case(args):
    """Contours obtained lazily for a stack of more masks than the list
    keeps in memory (1000): every access, in two passes and with revisits
    in between, equals the directly computed contour."""
    from dclab.features.contour import get_contour, get_contour_lazily
    out = []
    base = [place(m, "interior") for m in all_masks(3)] + \
        [place(m, "corner") for m in all_masks(4)[::211]]
    n = 1300
    masks = np.array([base[i % len(base)] if i % 7 else
                      np.roll(base[i % len(base)], 1, axis=1)
                      for i in range(n)])
    # two events without a contour (empty mask, single pixel): accessing
    # them fails, the others must be unaffected by that
    masks[10] = False
    masks[700] = False
    masks[700, 3, 3] = True
    direct = []
    for m in masks:
        try:
            direct.append(get_contour(m))
        except BaseException:
            direct.append(None)
    lcl = get_contour_lazily(masks)
    order = list(range(20)) + [11, 12, 11, 9, 10, 12] + list(range(
        20, n)) + [0, 5, 999, 1000, 1299, 3, 701, 699] + list(
        range(n - 1, -1, -1)) + list(range(0, n, 97))
    cnt = 0
    for pos, i in enumerate(order):
        cnt += 1
        try:
            got = lcl[i]
        except BaseException:
            got = None
        if (got is None) != (direct[i] is None) or (
                got is not None and not np.array_equal(got, direct[i])):
            out.append(violation(
                "dclab.features.contour:LazyContourList", "wrong-contour",
                {"kind": "lazy"},
                f"access {pos} (event {i}) of {len(order)} on a stack of "
                f"{n} masks: the lazily obtained contour differs from "
                f"get_contour(mask)", {"lazy": True}))
            break
    return cnt, out


def _frustum_volume(r, z):
    """Volume of revolution of the closed polyline (r, z), r >= 0, about
    the z axis: the sum of truncated cones (Kegelstumpf formula),
    positive for the order in which dclab stores contours."""
    r = np.append(r, r[0])
    z = np.append(z, z[0])
    return np.pi / 3 * np.sum(np.diff(z) * (
        r[:-1] ** 2 + r[:-1] * r[1:] + r[1:] ** 2))


def _small_volume_case(args):
    """The volume laws on every small mask (all masks of the 3x3 box and
    chunk c of the 4x4 set): finite for contours of at least four points,
    equal to the truncated-cone sum of the two half contours (written here),
    proportional to pix^3 and sign flips with the orientation."""
    chunk, nch = args
    from dclab.features.contour import get_contour
    from dclab.features.volume import get_volume
    W = "dclab.features.volume:get_volume"
    out = []
    cnt = 0
    masks = all_masks(4)[chunk::nch]
    if chunk == 0:
        masks = all_masks(3) + masks
    pix = 0.34
    for m in masks:
        mask = place(m, "interior")
        cont = get_contour(mask)
        ys, xs = np.nonzero(mask)
        cx, cy = xs.mean(), ys.mean()
        cnt += 1
        case = {"kind": "small-volume", "mask": m.astype(int).tolist()}

        def bad(symptom, detail, **t):
            out.append(violation(W, symptom, case, detail,
                                 dict(t, npts=min(len(cont), 6))))
        try:
            v = get_volume(cont, cx * pix, cy * pix, pix)
            v8 = get_volume(cont, cx * 2 * pix, cy * 2 * pix, 2 * pix)
            vr = get_volume(cont[::-1], cx * pix, cy * pix, pix)
        except Exception as e:
            bad("exception", f"{type(e).__name__}: {e}",
                exc=type(e).__name__)
            continue
        if len(cont) >= 4 and not np.isfinite(v):
            bad("volume-not-finite", f"contour of {len(cont)} points: {v}")
            continue
        if len(cont) < 4:
            continue
        rr = cont[:, 1] - cy
        zz = cont[:, 0] - cx
        right = _frustum_volume(np.clip(rr, 0, None), zz)
        left = _frustum_volume(-np.clip(rr, None, 0)[::-1], zz[::-1])
        want = (right + left) / 2 * pix ** 3
        scale = max(abs(want), pix ** 3)
        if abs(v - want) > 1e-9 * scale:
            bad("volume-differs-from-definition",
                f"{v} vs truncated-cone sum {want}")
        if abs(v8 - 8 * v) > 1e-9 * 8 * scale:
            bad("volume-not-cubic-in-pixel-size", f"{v8} vs 8 x {v}")
        if abs(vr + v) > 1e-9 * scale:
            bad("volume-sign-not-flipped", f"reversed {vr} vs {v}")
        # (fix_orientation=True is not constrained here: for contours
        # this small the centre often lies on the contour itself and the
        # orientation is undefined - dclab's own documentation warns that
        # "fixing" can make things worse; the ellipse ladder checks it
        # where the orientation is defined.)
    return cnt, out


TDMS_MASK_FIXTURES = ["fmt-tdms_fl-image_2016.zip",
                      "fmt-tdms_minimal_2016.zip",
                      "fmt-tdms_fl-image-bright_2017.zip",
                      "fmt-tdms_fl-image-large-fov_2017.zip"]


def _tdms_mask_case(args):
    """Masks that the .tdms reader derives from stored contours: for every
    ordered pair of events (first i, then j, both kept) and for the whole
    list, each mask handed out equals the filled contour of *its* event
    (computed here) - also after later events were accessed -, its contour
    refills to it and the brightness under the kept masks is that of numpy
    on image[mask]."""
    name, scratch = args
    import shutil
    import zipfile
    import dclab
    import scipy.ndimage as ndi
    from dclab.features.bright import get_bright
    from dclab.features.contour import get_contour
    from .. import boot
    W = "dclab.rtdc_dataset.fmt_tdms.event_mask:MaskColumn"
    out = []
    cnt = 0
    d = scratch / f"c18_tdms_{name[:-4]}"
    if d.exists():
        shutil.rmtree(d)
    d.mkdir()
    case = {"kind": "tdms-mask", "name": name}

    def bad(symptom, detail, **tags):
        out.append(violation(W, symptom, case, detail,
                             dict(tags, fixture=name[9:-4])))
    try:
        with zipfile.ZipFile(boot.REPO / "tests/data" / name) as z:
            z.extractall(d)
        tdms = [p for p in sorted(d.rglob("*.tdms"))
                if not p.name.endswith("_traces.tdms")][0]
        with dclab.new_dataset(tdms) as ds:
            n = len(ds["mask"])
            shape = tuple(ds["mask"].shape[1:])
            refs = []
            for i in range(n):
                c = np.asarray(ds["contour"][i])
                r = np.zeros(shape, dtype=bool)
                r[c[:, 1], c[:, 0]] = True
                refs.append(ndi.binary_fill_holes(r))
        # a dataset object per access order: what is handed out must not
        # depend on what was asked for before
        with dclab.new_dataset(tdms) as ds:
            for i in range(n):
                for j in range(n):
                    cnt += 1
                    a = ds["mask"][i]
                    b = ds["mask"][j]
                    if not (np.array_equal(a, refs[i])
                            and np.array_equal(b, refs[j])):
                        bad("mask-differs-from-filled-contour",
                            f"events {i} then {j}: mask of event "
                            f"{i if not np.array_equal(a, refs[i]) else j} "
                            f"differs from its filled contour in "
                            f"{int((a != refs[i]).sum())}/"
                            f"{int((b != refs[j]).sum())} pixels",
                            order="same" if i == j else "pair")
                        break
                else:
                    continue
                break
        with dclab.new_dataset(tdms) as ds:
            kept = [ds["mask"][i] for i in range(n)]
            for i in range(n):
                cnt += 1
                if not np.array_equal(kept[i], refs[i]):
                    bad("mask-differs-from-filled-contour",
                        f"list of all masks: entry {i} differs from the "
                        f"filled contour of event {i}", order="list")
                    break
                if refs[i].sum() > 1:
                    try:
                        cont = get_contour(kept[i])
                    except Exception as e:
                        bad("exception", f"get_contour(mask[{i}]): "
                            f"{type(e).__name__}: {e}",
                            exc=type(e).__name__)
                        continue
                    lab, nlab = ndi.label(refs[i], np.ones((3, 3)))
                    if nlab == 1 and not np.array_equal(
                            refill(cont, shape), refs[i]):
                        bad("refill-differs", f"event {i}: refilled "
                            f"contour of the mask differs from the mask")
            if "image" in ds and len(ds["image"]) >= n:
                imgs = [np.asarray(ds["image"][i]) for i in range(n)]
                if imgs[0].ndim == 2:
                    cnt += 1
                    got = get_bright(mask=kept, image=imgs, ret_data="avg")
                    want = [imgs[i][refs[i]].mean() if refs[i].any()
                            else np.nan for i in range(n)]
                    if not np.allclose(got, want, equal_nan=True):
                        bad("wrong-brightness", f"get_bright on the kept "
                            f"masks: {np.asarray(got)} != {want}")
    except Exception as e:
        bad("exception", f"{type(e).__name__}: {e}", exc=type(e).__name__)
    finally:
        shutil.rmtree(d, ignore_errors=True)
    return cnt, out


def _crosstalk_case(args):
    from dclab.features.fl_crosstalk import correct_crosstalk
    out = []
    cnt = 0
    sig = np.array([[100.0, 5.0, 0.0], [0.0, 40.0, 7.0], [3.0, 3.0, 3.0],
                    [1e4, 1.0, 250.0]])
    names = ["ct21", "ct31", "ct12", "ct32", "ct13", "ct23"]
    for vals in itertools.product((0.0, 0.1, 0.3), repeat=6):
        ct = dict(zip(names, vals))
        C = np.array([[1, ct["ct12"], ct["ct13"]],
                      [ct["ct21"], 1, ct["ct23"]],
                      [ct["ct31"], ct["ct32"], 1]])
        if abs(np.linalg.det(C)) < 1e-6:
            continue
        meas = sig @ C          # measured_j = sum_i true_i * c_ij
        cnt += 1
        for ch in (1, 2, 3):
            got = correct_crosstalk(meas[:, 0], meas[:, 1], meas[:, 2], ch,
                                    **ct)
            if not np.allclose(got, sig[:, ch - 1], rtol=1e-9, atol=1e-9):
                out.append(violation(
                    "dclab.features.fl_crosstalk:correct_crosstalk",
                    "does-not-invert-spill",
                    {"kind": "crosstalk", "ct": ct, "ch": ch},
                    f"{got} vs {sig[:, ch - 1]}", {"ch": ch}))
    return cnt, out


def run(ctx):
    all_masks(3)
    all_masks(4)          # computed once, inherited by the forked workers
    nch = 32
    places = ("interior", "bottom", "top", "left", "right", "corner")
    if ctx.quick:
        places = ("interior", "bottom", "top", "corner")
    res = par.pmap(_mask_case, [(c, nch, places) for c in range(nch)])
    res += par.pmap(_volume_case, [()])
    res += par.pmap(_small_volume_case, [(c, 16) for c in range(16)])
    res += par.pmap(_bright_case, [(c, 8, ctx.scratch) for c in range(8)])
    res += par.pmap(_crosstalk_case, [()])
    res += par.pmap(_lazy_case, [()])
    res += par.pmap(_tdms_mask_case, [(nm_, ctx.scratch)
                                      for nm_ in TDMS_MASK_FIXTURES])
    viols = []
    cnt = 0
    for c, vs in res:
        cnt += c
        viols.extend(vs)
    nm = len(all_masks())
    cov = {"evaluations": cnt, "distinct_nontrivial": nm,
           "masks_4x4": nm, "placements": list(places),
           "rule": "all 8-connected hole-free masks (>= 2 px) that fit a "
                   "4x4 box (canonical position), each placed in the "
                   "interior and against the borders of a 9x9 frame: "
                   "contour inside the mask and refill(contour) == mask; "
                   "translation invariance, axis-swap reciprocity, "
                   "principal ratio >= 1 and invariant under the 8 lattice "
                   "symmetries; sphere/ellipsoid ladder r=5..80 for the "
                   "volume laws; brightness on masks x 6 image/background "
                   "pairs x offsets (None, scalar, list, ndarray, h5 "
                   "dataset); all 3^6 spill matrices over {0,0.1,0.3}",
           "samples": [{"mask": [[1, 1], [0, 1]], "where": "top"},
                       {"volume": {"r": 20, "ax": 1.5}},
                       {"crosstalk": [0.1, 0.3, 0, 0, 0.1, 0]}],
           "exhaustive": True}
    return {"level": LEVEL, "coverage": cov, "violations": viols,
            "assumptions": [
                "one-pixel masks are outside (get_contour raises by design)",
                "masks larger than 4x4 are represented by the ellipse "
                "ladder only"]}


def replay(case, ctx):
    if case["kind"] == "lazy":
        return _lazy_case(())[1]
    if case["kind"] == "small-volume":
        target = np.array(case["mask"], bool)
        vs = []
        for c in range(16):
            vs += _small_volume_case((c, 16))[1]
        return [v for v in vs if v["case"] == case]
    if case["kind"] == "tdms-mask":
        return _tdms_mask_case((case["name"], ctx.scratch))[1]
    if case["kind"] == "mask":
        masks = all_masks()
        target = np.array(case["mask"], bool)
        idx = [i for i, m in enumerate(masks) if m.shape == target.shape
               and np.array_equal(m, target)]
        places = ("interior", "bottom", "top", "left", "right", "corner")
        _, vs = _mask_case((idx[0], len(masks), places))
        return [v for v in vs if v["case"]["where"] == case["where"]]
    if case["kind"] == "volume":
        _, vs = _volume_case(())
        return [v for v in vs if v["case"] == case]
    if case["kind"].startswith("bright"):
        vs = []
        for c in range(8):
            vs += _bright_case((c, 8, ctx.scratch))[1]
        return [v for v in vs if v["case"] == case]
    _, vs = _crosstalk_case(())
    return [v for v in vs if v["case"]["ct"] == case["ct"]
            and v["case"]["ch"] == case["ch"]]
