"""C13 -- the integrity checker accepts dclab's own output and flags real
inconsistencies.

E3: base files through every dclab write path (writer, export from dict /
hdf5 / hierarchy child, compress, repack, condense, join, split) from
complete metadata => no violation; a menu of ~45 corruptions applied with raw
h5py, all singles and all compatible pairs => each applied corruption is
reported; compressed / repacked copies receive the same violations.
"""
import itertools
import os
import pathlib
import shutil

import h5py
import numpy as np

from .. import gen, par
from ..runner import violation

PROPERTY = "C13"
LEVEL = "exploration"
CK = "dclab.rtdc_dataset.check:check_dataset"
N = 5


def base_file(path, seed=0, fl=1):
    """fl: the fluorescence channel the file uses (1, 2 or 3)."""
    gen.register_user_features()
    ev = gen.make_events(N, seed=seed, special=False)
    ev.pop(gen.USER_FEAT)
    meta = gen.complete_meta(N)
    if fl != 1:
        ev[f"fl{fl}_max"] = ev.pop("fl1_max")
        ev["trace"] = {f"fl{fl}_raw": ev["trace"]["fl1_raw"],
                       f"fl{fl}_median": ev["trace"]["fl1_median"]}
        m = meta["fluorescence"]
        for k in ("channel 1 name", "laser 1 lambda", "laser 1 power"):
            m[k.replace("1", str(fl))] = m.pop(k)
    gen.write_rtdc(path, ev, meta=meta, logs={"vf-log": ["a line"]})
    return path


def _del(key):
    def f(h5):
        del h5.attrs[key]
    return f


def _set(key, val):
    def f(h5):
        h5.attrs[key] = val
    return f


def _resize(name, delta):
    def f(h5):
        ds = h5["events"][name]
        ds.resize(ds.shape[0] + delta, axis=0)
    return f


def _del_contour(h5):
    del h5["events/contour"][str(N - 1)]


def _unknown(h5):
    h5["events"].create_dataset("peter", data=np.arange(N))


def _unknown_named(name):
    def f(h5):
        # (values between 0 and 1: nothing else to complain about)
        h5["events"][name] = np.linspace(
            0.1, 0.9, h5["events/deform"].shape[0])
    return f


def _bad_index(h5):
    h5["events/index"][2] = 7


def _index_as(fn):
    def f(h5):
        n = h5["events/index"].shape[0]
        h5["events/index"][:] = fn(np.arange(1, n + 1))
    return f


def _extlink(tag):
    def f(h5):
        import pathlib
        target = pathlib.Path(h5.filename).parent / f"other_{tag}.h5"
        if tag != "dangling" and not target.exists():
            with h5py.File(target, "w") as ho:
                ho.create_dataset("events/userdef1",
                                  data=np.arange(N, dtype=float))
        h5["events/userdef1"] = h5py.ExternalLink(target.name,
                                                  "/events/userdef1")
    return f


def corruption_menu(fl=1):
    """(name, group, apply, expected substring in a violation). Corruptions
    of the same group are not combined."""
    from dclab.rtdc_dataset import check
    menu = []
    flm = f"fl{fl}_max"
    flr = f"fl{fl}_raw"
    for sec, keys in list(check.IMPORTANT_KEYS.items()) + list(
            check.IMPORTANT_KEYS_FL.items()):
        for k in keys:
            if (sec, k) in (("experiment", "event count"),
                            ("fluorescence", "samples per event"),
                            ("fluorescence", "channel count")):
                continue
            menu.append((f"missing {sec}:{k}", f"{sec}:{k}",
                         _del(f"{sec}:{k}"),
                         f"Missing key [{sec}] '{k}'"))
    menu += [
        ("deform length -1", "len deform", _resize("deform", -1),
         "wrong event count: 'deform'"),
        ("deform length +1", "len deform", _resize("deform", 1),
         "wrong event count: 'deform'"),
        ("fl max length +1", "len flmax", _resize(flm, 1),
         f"wrong event count: '{flm}'"),
        ("image length -1", "len image", _resize("image", -1),
         "wrong event count: 'image'"),
        ("mask length +1", "len mask", _resize("mask", 1),
         "wrong event count: 'mask'"),
        ("contour entry deleted", "len contour", _del_contour,
         "wrong event count: 'contour'"),
        ("trace length -1", "len trace",
         lambda h5: h5[f"events/trace/{flr}"].resize(N - 1, axis=0),
         f"wrong event count: 'trace/{flr}'"),
        # (combined with a length change of one feature it would *agree*
        # with that feature: not compatible with the "len ..." entries)
        ("event count +1", "len",
         _set("experiment:event count", N + 1), "wrong event count"),
        ("roi size x wrong", "imaging:roi size x",
         _set("imaging:roi size x", gen.IMG_SHAPE[1] + 2),
         "Mismatch [imaging] 'roi size x'"),
        ("roi size y wrong", "imaging:roi size y",
         _set("imaging:roi size y", gen.IMG_SHAPE[0] + 1),
         "Mismatch [imaging] 'roi size y'"),
        ("unknown feature", "unknown", _unknown,
         "Unknown key 'peter'"),
        # names that almost look like defined features
        ("unknown feature ml_score_abc1", "unknown",
         _unknown_named("ml_score_abc1"), "Unknown key 'ml_score_abc1'"),
        ("unknown feature ml_score_ab", "unknown",
         _unknown_named("ml_score_ab"), "Unknown key 'ml_score_ab'"),
        ("unknown feature area_um2", "unknown",
         _unknown_named("area_um2"), "Unknown key 'area_um2'"),
        ("unknown feature userdef10", "unknown",
         _unknown_named("userdef10"), "Unknown key 'userdef10'"),
        ("unknown feature fl4_max", "unknown",
         _unknown_named("fl4_max"), "Unknown key 'fl4_max'"),
        ("index not enumerating", "index", _bad_index,
         "index feature is not enumerated correctly"),
        ("index zero-based", "index", _index_as(lambda a: a - 1),
         "index feature is not enumerated correctly"),
        ("index shifted +5", "index", _index_as(lambda a: a + 5),
         "index feature is not enumerated correctly"),
        ("index pair swapped", "index",
         _index_as(lambda a: np.concatenate([a[:1], a[2:3], a[1:2], a[3:]])),
         "index feature is not enumerated correctly"),
        ("index reversed", "index", _index_as(lambda a: a[::-1].copy()),
         "index feature is not enumerated correctly"),
        ("index with a duplicate", "index",
         _index_as(lambda a: np.concatenate([a[:-1], a[-2:-1]])),
         "index feature is not enumerated correctly"),
        ("channel count 2", "fluorescence:channel count",
         _set("fluorescence:channel count", 2),
         "channel count inconsistent"),
        ("laser count 2", "fluorescence:laser count",
         _set("fluorescence:laser count", 2), "laser count inconsistent"),
        ("samples per event wrong", "fluorescence:samples per event",
         _set("fluorescence:samples per event", gen.TRACE_LEN + 3),
         "wrong number of samples per event"),
        ("external link", "extlink", _extlink("a"), "external link"),
        ("dangling external link", "extlink", _extlink("dangling"),
         "external link"),
        ("frame rate 0", "imaging:frame rate",
         _set("imaging:frame rate", 0.0),
         "Invalid value for [imaging] 'frame rate'"),
        ("pixel size negative", "imaging:pixel size",
         _set("imaging:pixel size", -0.34),
         "Invalid value for [imaging] 'pixel size'"),
        ("channel width 0", "setup:channel width",
         _set("setup:channel width", 0.0),
         "Invalid value for [setup] 'channel width'"),
        ("flow rate negative", "setup:flow rate",
         _set("setup:flow rate", -0.04),
         "Invalid value for [setup] 'flow rate'"),
        # further values of the same inconsistencies
        ("event count -1", "len",
         _set("experiment:event count", N - 1), "wrong event count"),
        ("roi size x smaller", "imaging:roi size x",
         _set("imaging:roi size x", gen.IMG_SHAPE[1] - 1),
         "Mismatch [imaging] 'roi size x'"),
        ("roi size y larger", "imaging:roi size y",
         _set("imaging:roi size y", gen.IMG_SHAPE[0] * 2),
         "Mismatch [imaging] 'roi size y'"),
        ("channel count 3", "fluorescence:channel count",
         _set("fluorescence:channel count", 3),
         "channel count inconsistent"),
        ("laser count 3", "fluorescence:laser count",
         _set("fluorescence:laser count", 3), "laser count inconsistent"),
        ("samples per event smaller", "fluorescence:samples per event",
         _set("fluorescence:samples per event", gen.TRACE_LEN - 1),
         "wrong number of samples per event"),
        ("frame rate negative", "imaging:frame rate",
         _set("imaging:frame rate", -2000.0),
         "Invalid value for [imaging] 'frame rate'"),
        ("pixel size 0", "imaging:pixel size",
         _set("imaging:pixel size", 0.0),
         "Invalid value for [imaging] 'pixel size'"),
        ("channel width negative", "setup:channel width",
         _set("setup:channel width", -20.0),
         "Invalid value for [setup] 'channel width'"),
        ("flow rate 0", "setup:flow rate",
         _set("setup:flow rate", 0.0),
         "Invalid value for [setup] 'flow rate'"),
        ("median trace length -2", "len trace median",
         lambda h5: h5[f"events/trace/fl{fl}_median"].resize(N - 2, axis=0),
         f"wrong event count: 'trace/fl{fl}_median'"),
        ("contour entries 0 and 2 deleted", "len contour",
         lambda h5: [h5["events/contour"].__delitem__(k)
                     for k in ("0", "2")],
         "wrong event count: 'contour'"),
        ("area_um length +2", "len area_um", _resize("area_um", 2),
         "wrong event count: 'area_um'"),
        ("image_bg length -2", "len image_bg", _resize("image_bg", -2),
         "wrong event count: 'image_bg'"),
    ]
    return menu


def run_checker(path):
    from dclab.rtdc_dataset.check import check_dataset
    return check_dataset(path)


def cli_exit_code(path):
    """Exit status of `dclab-verify-dataset <path>` (output discarded)."""
    import contextlib
    import io
    from dclab.cli import task_verify_dataset as tv
    try:
        with contextlib.redirect_stdout(io.StringIO()):
            tv.verify_dataset(path_in=pathlib.Path(path))
    except SystemExit as e:
        return e.code
    return None


def exit_code_problem(path, viol, aler):
    """The command-line tool must classify the file the way the checker
    does: 0 ok, 1 alerts, 2 violations, 3 both."""
    want = (2 if viol else 0) + (1 if aler else 0)
    got = cli_exit_code(path)
    if got != want:
        return (f"dclab-verify-dataset exits with {got}, the checker reports "
                f"{len(viol)} violations / {len(aler)} alerts (expected "
                f"{want})")
    return None


def _clean_case(args):
    route, seed, scratch = args
    import dclab
    from dclab import cli
    d = scratch / f"c13_clean_{route}_{os.getpid()}"
    if d.exists():
        shutil.rmtree(d)
    d.mkdir()
    out = []
    case = {"kind": "clean", "route": route, "seed": seed}
    try:
        src = base_file(d / "src.rtdc", seed)
        targets = []
        if route == "writer":
            targets = [src]
        elif route == "export-hdf5":
            with dclab.new_dataset(src) as ds:
                ds.export.hdf5(d / "o.rtdc", features=ds.features_innate,
                               filtered=False)
            targets = [d / "o.rtdc"]
        elif route == "export-filtered":
            with dclab.new_dataset(src) as ds:
                ds.filter.manual[1] = False
                ds.apply_filter()
                ds.export.hdf5(d / "o.rtdc", features=ds.features_innate,
                               filtered=True, logs=True, basins=True)
            targets = [d / "o.rtdc"]
        elif route == "export-subset-basins":
            # only some features are stored, the rest (fluorescence
            # included) comes from the source through a basin; also the
            # compressed copy of that file
            with dclab.new_dataset(src) as ds:
                ds.export.hdf5(d / "o.rtdc", features=["deform", "area_um",
                                                       "image", "mask"],
                               filtered=False, basins=True)
            cli.compress(path_in=d / "o.rtdc", path_out=d / "oc.rtdc")
            targets = [d / "o.rtdc", d / "oc.rtdc"]
        elif route == "object-after-config-read":
            # a measurement without fluorescence, checked as an open dataset
            # object after its configuration has been looked at
            ev = gen.make_events(N, seed=seed, special=False,
                                 feats=["deform", "area_um", "frame",
                                        "index_online", "image", "mask",
                                        "bright_avg", "pos_x"])
            nofl = d / "nofl.rtdc"
            gen.write_rtdc(nofl, ev, meta=gen.complete_meta(N, fl=False))
            with dclab.new_dataset(nofl) as ds:
                for sec in ("fluorescence", "online_contour", "qpi",
                            "user", "calculation"):
                    ds.config[sec].get("no such key")
                viol, aler, info = run_checker(ds)
                if viol:
                    out.append(violation(
                        CK, "false-violation", case,
                        f"{route}: a dataset without fluorescence, checked "
                        f"as an object after reading its configuration "
                        f"sections, is reported with violations {viol}",
                        {"route": route}))
            targets = [nofl]
        elif route == "export-child":
            with dclab.new_dataset(src) as ds:
                ds.filter.manual[0] = False
                ds.apply_filter()
                ch = dclab.new_dataset(ds)
                ch.export.hdf5(d / "o.rtdc", features=ch.features_innate,
                               filtered=False)
            targets = [d / "o.rtdc"]
        elif route == "export-dict":
            ev = gen.make_events(N, seed=seed, special=False)
            ev.pop(gen.USER_FEAT)
            ev.pop("index")
            ds = dclab.new_dataset(ev)
            for sec, dd in gen.complete_meta(N).items():
                for k, v in dd.items():
                    ds.config[sec][k] = v
            ds.export.hdf5(d / "o.rtdc", features=ds.features_innate,
                           filtered=False)
            targets = [d / "o.rtdc"]
        elif route in ("compress", "repack", "condense"):
            getattr(cli, route)(path_in=src, path_out=d / "o.rtdc")
            targets = [d / "o.rtdc"]
        elif route == "join":
            src2 = d / "src2.rtdc"
            ev = gen.make_events(4, seed=seed + 1, special=False)
            ev.pop(gen.USER_FEAT)
            gen.write_rtdc(src2, ev, meta=gen.complete_meta(
                4, time="12:05:00", run_index=2))
            cli.join(paths_in=[src, src2], path_out=d / "o.rtdc")
            targets = [d / "o.rtdc"]
        elif route == "split":
            targets = cli.split(path_in=src, path_out=d / "parts",
                                split_events=2, ret_out_paths=True)
        for t in targets:
            viol, aler, info = run_checker(t)
            if viol:
                out.append(violation(
                    CK, "false-violation", case,
                    f"{route}: {t.name} produced by dclab from complete "
                    f"metadata is reported with violations {viol}",
                    {"route": route}))
            prob = exit_code_problem(t, viol, aler)
            if prob:
                out.append(violation(
                    "dclab.cli.task_verify_dataset:verify_dataset",
                    "wrong-exit-code", case, f"{route}: {prob}",
                    {"route": route}))
    except BaseException as e:
        out.append(violation(CK, "exception", case,
                             f"{route}: {type(e).__name__}: {e}",
                             {"route": route, "exc": type(e).__name__}))
    finally:
        shutil.rmtree(d, ignore_errors=True)
    return 1, out


def _corrupt_case(args):
    combos, copies, seed, scratch = args[:4]
    fl = args[4] if len(args) > 4 else 1
    from dclab import cli
    menu = corruption_menu(fl)
    d = scratch / f"c13_cor_{os.getpid()}"
    if d.exists():
        shutil.rmtree(d)
    d.mkdir()
    out = []
    cnt = 0
    memo = {}

    def viols_of(idx):
        """Violations reported for the base file with the corruptions idx
        (a tuple of menu indices; () = the clean base file)."""
        if idx not in memo:
            q = d / "m.rtdc"
            shutil.copy(base, q)
            with h5py.File(q, "a") as h5:
                for i in idx:
                    menu[i][2](h5)
            try:
                memo[idx] = set(run_checker(q)[0])
            except BaseException:
                memo[idx] = None
            q.unlink()
        return memo[idx]

    def reported(i, combo, viol):
        """Is corruption i visible in `viol`?  By the wording dclab uses
        today, or - should the wording change - by a violation that is
        not there without corruption i."""
        if any(menu[i][3] in v for v in viol):
            return True
        without = viols_of(tuple(j for j in combo if j != i))
        if without is not None and set(viol) - without:
            return True
        # the other corruption may produce the very same message: then the
        # messages that i produces on its own must be in the report
        alone, clean = viols_of((i,)), viols_of(())
        return alone is not None and clean is not None and bool(
            (alone - clean) & set(viol))
    try:
        base = base_file(d / "base.rtdc", seed, fl)
        for combo in combos:
            cnt += 1
            names = [menu[i][0] for i in combo]
            case = {"kind": "corrupt", "names": names, "seed": seed,
                    "fl": fl}
            tags = {"n": len(combo)}
            p = d / "c.rtdc"
            shutil.copy(base, p)
            with h5py.File(p, "a") as h5:
                for i in combo:
                    menu[i][2](h5)
            try:
                viol, aler, info = run_checker(p)
            except BaseException as e:
                out.append(violation(
                    CK, "checker-crashed", case,
                    f"corruptions {names}: {type(e).__name__}: {e}",
                    dict(tags, exc=type(e).__name__,
                         dangling_link="dangling external link" in names,
                         what=names[0] if len(names) == 1 else "pair")))
                continue
            if len(combo) == 1:
                prob = exit_code_problem(p, viol, aler)
                if prob:
                    out.append(violation(
                        "dclab.cli.task_verify_dataset:verify_dataset",
                        "wrong-exit-code", case, f"{names}: {prob}",
                        dict(tags, what=names[0])))
            for i in combo:
                if not reported(i, tuple(combo), viol):
                    out.append(violation(
                        CK, "inconsistency-not-reported", case,
                        f"corruption '{menu[i][0]}' (with {names}) is not "
                        f"among the violations {viol}",
                        dict(tags, what=menu[i][0])))
            if copies and len(combo) == 1:
                for task in ("compress", "repack"):
                    q = d / f"{task}.rtdc"
                    try:
                        getattr(cli, task)(path_in=p, path_out=q)
                        v2, _, _ = run_checker(q)
                        # Violations that may legitimately vanish in a
                        # copy: the writer rectifies derived metadata
                        # (event count, samples per event, roi size) when
                        # compress appends its log; external links are
                        # resolved (the data are copied).
                        # Decided by the kind of corruption, not by the
                        # wording of the messages: those corruptions are
                        # not compared.
                        group = menu[combo[0]][1]
                        rectified = group == "extlink" or (
                            task == "compress" and (
                                group.startswith("len") or group == "index"
                                or group.startswith("imaging:roi size")
                                or group == "fluorescence:samples per event"))
                        if rectified:
                            continue
                        v1 = list(viol)
                        if sorted(v2) != sorted(v1):
                            out.append(violation(
                                CK, "copy-gets-other-violations", case,
                                f"{task} of a file with '{names[0]}': "
                                f"{sorted(set(viol) ^ set(v2))} differ",
                                dict(tags, task=task,
                                     what="unknown feature" if menu[
                                         combo[0]][1] == "unknown"
                                     else names[0])))
                    except BaseException as e:
                        out.append(violation(
                            CK, "copy-failed", case,
                            f"{task} of a file with '{names[0]}': "
                            f"{type(e).__name__}: {e}",
                            dict(tags, task=task, what=names[0],
                                 exc=type(e).__name__)))
                    if q.exists():
                        q.unlink()
    finally:
        shutil.rmtree(d, ignore_errors=True)
    return cnt, out


NLARGE = 150003


def _large_index_case(args):
    """One long measurement (150003 events, scalar features only): clean,
    and with a single index entry off by one at the start, in the middle,
    beyond 100000 and at the end - each must be reported."""
    seed, scratch = args
    d = scratch / f"c13_large_{os.getpid()}"
    if d.exists():
        shutil.rmtree(d)
    d.mkdir()
    out = []
    cnt = 0
    n = NLARGE
    try:
        k = np.arange(n)
        ev = {"deform": 0.01 + (k % 97) * 1e-3,
              "area_um": 50.0 + (k % 53),
              "frame": k * 2 + 1, "index": k + 1}
        base = d / "base.rtdc"
        gen.write_rtdc(base, ev, meta=gen.complete_meta(n, fl=False))
        clean = run_checker(base)[0]
        cnt += 1
        case = {"kind": "large-index", "seed": seed, "pos": None}
        if clean:
            out.append(violation(CK, "own-output-flagged", case,
                                 f"{n}-event file from the writer: {clean}",
                                 {"route": "writer", "scope": "large-input"}))
        for pos in (0, 1, n // 2, 100000, 120000, n - 2, n - 1):
            for delta in (1, -1):
                cnt += 1
                q = d / "c.rtdc"
                shutil.copy(base, q)
                with h5py.File(q, "a") as h5:
                    dsi = h5["events/index"]
                    dsi[pos] = int(dsi[pos]) + delta
                case = {"kind": "large-index", "seed": seed, "pos": pos,
                        "delta": delta}
                try:
                    viol = set(run_checker(q)[0])
                except BaseException as e:
                    out.append(violation(
                        CK, "checker-crashed", case,
                        f"{type(e).__name__}: {e}",
                        {"exc": type(e).__name__, "what": "index"}))
                    continue
                if not (viol - set(clean)):
                    out.append(violation(
                        CK, "inconsistency-not-reported", case,
                        f"index[{pos}] changed by {delta:+d} in a file of "
                        f"{n} events: violations {sorted(viol)}",
                        {"what": "index", "scope": "large-input"}))
    finally:
        shutil.rmtree(d, ignore_errors=True)
    return cnt, out


def _multichannel_case(args):
    """Files that use several fluorescence channels, also with a gap
    (1 + 3): the writer's own output is clean, the exported and the
    compressed copy too, and every wrong channel / laser count (lower and
    higher than recorded) is reported."""
    chans, seed, scratch = args
    import dclab
    from dclab import cli
    d = scratch / f"c13_mc_{os.getpid()}_{''.join(map(str, chans))}"
    if d.exists():
        shutil.rmtree(d)
    d.mkdir()
    out = []
    cnt = 0
    k = len(chans)
    case = {"kind": "multichannel", "chans": list(chans), "seed": seed}
    try:
        gen.register_user_features()
        ev = gen.make_events(N, seed=seed, special=False)
        ev.pop(gen.USER_FEAT)
        meta = gen.complete_meta(N)
        fl1 = ev.pop("fl1_max")
        tr = ev.pop("trace")
        ev["trace"] = {}
        m = meta["fluorescence"]
        for key in ("channel 1 name", "laser 1 lambda", "laser 1 power"):
            m.pop(key)
        for c in chans:
            ev[f"fl{c}_max"] = fl1 + c
            ev["trace"][f"fl{c}_raw"] = tr["fl1_raw"] + c
            ev["trace"][f"fl{c}_median"] = tr["fl1_median"] + c
            m[f"channel {c} name"] = f"FL{c}"
            m[f"laser {c} lambda"] = 400.0 + 50 * c
            m[f"laser {c} power"] = 5.0
        m["channel count"] = k
        m["laser count"] = k
        m["channels installed"] = 3
        m["lasers installed"] = 3
        base = d / "base.rtdc"
        gen.write_rtdc(base, ev, meta=meta, logs={"vf-log": ["a line"]})
        exp = d / "exported.rtdc"
        with dclab.new_dataset(base) as ds:
            ds.export.hdf5(exp, features=ds.features_innate)
        comp = d / "compressed.rtdc"
        cli.compress(path_in=base, path_out=comp)
        for route, p in (("writer", base), ("export", exp),
                         ("compress", comp)):
            cnt += 1
            viol, aler, info = run_checker(p)
            if viol:
                out.append(violation(
                    CK, "own-output-flagged", case,
                    f"channels {chans} via {route}: {viol}",
                    {"route": route, "chans": "gap" if chans == (1, 3)
                     else "contiguous"}))
        clean = set(run_checker(base)[0])
        for key in ("channel count", "laser count"):
            for v in (0, 1, 2, 3, 4):
                if v == k:
                    continue
                cnt += 1
                q = d / "c.rtdc"
                shutil.copy(base, q)
                with h5py.File(q, "a") as h5:
                    h5.attrs[f"fluorescence:{key}"] = v
                try:
                    viol = set(run_checker(q)[0])
                except BaseException as e:
                    out.append(violation(
                        CK, "checker-crashed", case,
                        f"{key}={v} with channels {chans}: "
                        f"{type(e).__name__}: {e}",
                        {"exc": type(e).__name__, "what": key}))
                    continue
                if not (viol - clean):
                    out.append(violation(
                        CK, "inconsistency-not-reported", case,
                        f"'{key}' = {v} in a file that records channels "
                        f"{chans}: violations {sorted(viol)}",
                        {"what": key, "dir": "lower" if v < k
                         else "higher"}))
    finally:
        shutil.rmtree(d, ignore_errors=True)
    return cnt, out


def run(ctx):
    scratch = ctx.scratch
    routes = ["writer", "export-hdf5", "export-filtered",
              "export-subset-basins", "object-after-config-read",
              "export-child",
              "export-dict", "compress", "repack", "condense", "join",
              "split"]
    res = par.pmap(_clean_case, [(r, ctx.seed, scratch) for r in routes])
    menu = corruption_menu()
    singles = [(i,) for i in range(len(menu))]
    def compatible(a, b):
        ga, gb = menu[a][1], menu[b][1]
        if ga == gb:
            return False
        if "len" in (ga, gb) and (ga.startswith("len") and gb.startswith(
                "len")):
            return False
        return True
    pairs = [(i, j) for i, j in itertools.combinations(range(len(menu)), 2)
             if compatible(i, j)]
    chunks = [singles[k::16] for k in range(16)]
    res += par.pmap(_corrupt_case, [(c, True, ctx.seed, scratch)
                                    for c in chunks if c])
    # the same menu on files that use only fluorescence channel 3 / 2
    for flv in (3, 2):
        res += par.pmap(_corrupt_case, [
            (singles[k::8], False, ctx.seed, scratch, flv)
            for k in range(8)])
    flidx = [i for i, m in enumerate(menu) if "fluorescence" in m[1]]
    flpairs = [(i, j) for i, j in itertools.combinations(flidx, 2)
               if compatible(i, j)]
    res += par.pmap(_corrupt_case, [
        (flpairs[k::8], False, ctx.seed, scratch, 3) for k in range(8)])
    res += par.pmap(_large_index_case, [(ctx.seed, scratch)])
    res += par.pmap(_multichannel_case, [
        (ch, ctx.seed, scratch)
        for ch in ((1, 2), (1, 3), (2, 3), (1, 2, 3))])
    triples = []
    if ctx.thorough:
        # all compatible triples over one representative per group of
        # corruptions (the first of each group)
        reps = {}
        for i, m in enumerate(menu):
            reps.setdefault(m[1], i)
        rl = sorted(reps.values())
        triples = [t for t in itertools.combinations(rl, 3)
                   if all(compatible(a, b)
                          for a, b in itertools.combinations(t, 2))]
        res += par.pmap(_corrupt_case, [
            (triples[k::16], False, ctx.seed, scratch) for k in range(16)])
    pchunks = [pairs[k::16] for k in range(16)]
    res += par.pmap(_corrupt_case, [(c, False, ctx.seed, scratch)
                                    for c in pchunks if c])
    viols = []
    cnt = 0
    for n, vs in res:
        cnt += n
        viols.extend(vs)
    cov = {"evaluations": cnt, "distinct_nontrivial": len(singles) + len(
        pairs), "corruptions": len(menu), "pairs": len(pairs),
        "triples": len(triples),
        "write_paths": routes,
        "rule": "clean files through 10 dclab write paths; corruption menu "
                "(every mandatory key incl. fluorescence keys, feature "
                "lengths +/-1 per kind, event count, ROI x/y, unknown "
                "feature, index, channel/laser/sample counts, external "
                "link, non-positive set-up values) applied with raw h5py: "
                "all singles (each also compressed and repacked) and all "
                "compatible pairs",
        "samples": [menu[0][0], [menu[3][0], menu[-1][0]],
                    {"clean": "export-child"}],
        "exhaustive": True}
    return {"level": LEVEL, "coverage": cov, "violations": viols,
            "assumptions": ["a corruption counts as reported if a violation "
                            "message names it (substring match)"]}


def replay(case, ctx):
    if case["kind"] == "large-index":
        return [v for v in _large_index_case((case["seed"], ctx.scratch))[1]
                if v["case"] == case]
    if case["kind"] == "multichannel":
        return _multichannel_case((tuple(case["chans"]), case["seed"],
                                   ctx.scratch))[1]
    if case["kind"] == "clean":
        _, vs = _clean_case((case["route"], case["seed"], ctx.scratch))
        return vs
    menu = corruption_menu(case.get("fl", 1))
    idx = tuple(i for n in case["names"] for i, m in enumerate(menu)
                if m[0] == n)
    _, vs = _corrupt_case(([idx], len(idx) == 1 and case.get("fl", 1) == 1,
                           case["seed"], ctx.scratch, case.get("fl", 1)))
    return vs
