"""C15 -- polygon filters classify points by exact even-odd containment.

E3: all polygons with 3..5 vertices on a 4x4 integer grid against every
off-boundary point of the half-step lattice (exact integer oracle); cyclic
shifts, reversal, repeated closing vertex, inversion; a ladder of scales
2^k / 10^k with an exact rational oracle on the actual doubles; every subset
of a 4-filter pool saved to a .poly file and re-imported.
"""
import itertools
import os
from fractions import Fraction

import numpy as np

from .. import par
from ..runner import violation

PROPERTY = "C15"
LEVEL = "exploration"
PF = "dclab.polygon_filter:PolygonFilter"
G = 4                       # grid 0..3
# doubled coordinates: vertices at even integers, query points at all
# integers -1..7 (i.e. -0.5 .. 3.5 in steps of 0.5)
def lattice(g):
    qx, qy = np.meshgrid(np.arange(-1, 2 * g), np.arange(-1, 2 * g))
    qx, qy = qx.ravel(), qy.ravel()
    return qx, qy, np.stack([qx / 2.0, qy / 2.0], axis=1)


QX, QY, QPTS = lattice(G)


def exact_classify(verts2, QX=QX, QY=QY):
    """verts2: integer vertices (already doubled). Returns (inside, onb) for
    all query points, with exact integer arithmetic."""
    n = len(verts2)
    inside = np.zeros(len(QX), bool)
    onb = np.zeros(len(QX), bool)
    for i in range(n):
        x1, y1 = verts2[i]
        x2, y2 = verts2[(i + 1) % n]
        # on-segment test
        cross = (x2 - x1) * (QY - y1) - (y2 - y1) * (QX - x1)
        within = ((QX >= min(x1, x2)) & (QX <= max(x1, x2))
                  & (QY >= min(y1, y2)) & (QY <= max(y1, y2)))
        onb |= (cross == 0) & within
        if y1 == y2:
            continue
        # half-open rule: edge counts for y in [ymin, ymax)
        cond = (y1 > QY) != (y2 > QY)
        # px < x1 + (py-y1)*(x2-x1)/(y2-y1)  (exact, sign-aware)
        lhs = (QX - x1) * (y2 - y1)
        rhs = (QY - y1) * (x2 - x1)
        less = lhs < rhs if (y2 - y1) > 0 else lhs > rhs
        inside ^= cond & less
    return inside, onb


def _grid_case(args):
    nv, lo, hi, variants = args[:4]
    g = args[4] if len(args) > 4 else G
    QX, QY, QPTS = lattice(g)
    from dclab.external.skimage.measure import points_in_poly
    from dclab.polygon_filter import PolygonFilter
    out = []
    cnt = 0
    nt = 0
    pts = [(x, y) for x in range(g) for y in range(g)]
    npt = len(pts)
    for code in range(lo, hi):
        idx = []
        c = code
        for _ in range(nv):
            idx.append(c % npt)
            c //= npt
        verts = np.array([pts[i] for i in idx], dtype=float)
        inside, onb = exact_classify((verts * 2).astype(int), QX, QY)
        ok = ~onb
        cnt += 1
        # non-trivial: the polygon encloses at least one query point
        nt += bool((inside & ok).any())
        got = np.asarray(points_in_poly(QPTS, verts))
        case = {"kind": "grid", "g": g, "verts": verts.astype(int).tolist()}
        if not np.array_equal(got[ok], inside[ok]):
            bad = np.flatnonzero(ok & (got != inside))[:3]
            out.append(violation(
                "dclab.external.skimage.pnpoly:points_in_poly",
                "wrong-classification", case,
                f"polygon {verts.astype(int).tolist()}: points "
                f"{QPTS[bad].tolist()} classified {got[bad].tolist()}, "
                f"even-odd rule says {inside[bad].tolist()}",
                {"nv": nv, "variant": "plain"}))
            continue
        if not variants or code % variants:
            continue
        # invariances: cyclic shifts, reversal, closing vertex
        for name, v2 in (
                [(f"shift{k}", np.roll(verts, k, axis=0))
                 for k in range(1, nv)]
                + [("reversed", verts[::-1].copy()),
                   ("closed", np.vstack([verts, verts[:1]]))]):
            g2 = np.asarray(points_in_poly(QPTS, v2))
            if not np.array_equal(g2[ok], inside[ok]):
                out.append(violation(
                    "dclab.external.skimage.pnpoly:points_in_poly",
                    "wrong-classification", dict(case, variant=name),
                    f"polygon {v2.tolist()} ({name})",
                    {"nv": nv, "variant": name.rstrip("0123456789")}))
        # through PolygonFilter: inversion gives the complement
        PolygonFilter.clear_all_filters()
        pf = PolygonFilter(axes=("area_um", "deform"), points=verts)
        f1 = pf.filter(QPTS[:, 0], QPTS[:, 1])
        pf.inverted = True
        f2 = pf.filter(QPTS[:, 0], QPTS[:, 1])
        single = [PolygonFilter.point_in_poly(tuple(p), verts)
                  for p in QPTS[ok][:9]]
        # the two coordinate arrays of a dataset need not share a dtype:
        # integer-valued x as int64 (e.g. a frame number) with float y,
        # integer-valued y as int32 with float x, float32 with float64
        xi = ok & (QX % 2 == 0)
        yi = ok & (QY % 2 == 0)
        pf.inverted = False
        mixed = (
            np.array_equal(pf.filter((QX[xi] // 2).astype(np.int64),
                                     QPTS[xi, 1]), inside[xi])
            and np.array_equal(pf.filter(QPTS[yi, 0],
                                         (QY[yi] // 2).astype(np.int32)),
                               inside[yi])
            and np.array_equal(pf.filter(QPTS[ok, 0].astype(np.float32),
                                         QPTS[ok, 1]), inside[ok])
            and np.array_equal(pf.filter(QPTS[ok, 0],
                                         QPTS[ok, 1].astype(np.float32)),
                               inside[ok]))
        # vertices replaced after construction (setter / __setstate__):
        # the filter must classify by its current vertices
        pf2 = PolygonFilter(axes=("area_um", "deform"),
                            points=[[0, 0], [0.5, 0], [0, 0.5]])
        pf2.points = verts
        st8 = pf2.__getstate__()
        pf3 = PolygonFilter(axes=("area_um", "deform"),
                            points=[[2.5, 2.5], [3, 2.5], [3, 3]],
                            unique_id=st8["identifier"] + 1)
        st8["identifier"] = pf3.unique_id
        pf3.__setstate__(st8)
        for how, pfx in (("points setter", pf2), ("__setstate__", pf3)):
            if not np.array_equal(pfx.filter(QPTS[:, 0], QPTS[:, 1])[ok],
                                  inside[ok]):
                out.append(violation(
                    PF + ".filter", "wrong-classification", case,
                    f"vertices replaced through the {how}: the filter does "
                    f"not classify by its current vertices",
                    {"nv": nv, "variant": "vertices-replaced"}))
        if not mixed:
            out.append(violation(
                PF + ".filter", "wrong-classification", case,
                "PolygonFilter.filter with coordinate arrays of different "
                "dtypes (int64/float64, float64/int32, float32/float64) "
                "disagrees with the even-odd rule",
                {"nv": nv, "variant": "mixed-dtypes"}))
        if not (np.array_equal(f1[ok], inside[ok])
                and np.array_equal(f2[ok], ~inside[ok])
                and single == inside[ok][:9].tolist()):
            out.append(violation(
                PF + ".filter", "wrong-classification", case,
                "PolygonFilter.filter / inversion / point_in_poly disagree "
                "with the even-odd rule", {"nv": nv, "variant": "filter"}))
    return cnt, out, nt


def _rational_inside(px, py, verts):
    inside = False
    n = len(verts)
    for i in range(n):
        x1, y1 = verts[i]
        x2, y2 = verts[(i + 1) % n]
        if (y1 > py) != (y2 > py):
            xint = x1 + (py - y1) * (x2 - x1) / (y2 - y1)
            if px < xint:
                inside = not inside
    return inside


def _scale_case(args):
    base, = args
    from dclab.external.skimage.measure import points_in_poly
    out = []
    cnt = 0
    polys = [
        [(0, 0), (3, 0), (3, 3), (0, 3)],
        [(0, 0), (3, 0), (1, 1), (0, 3)],            # concave
        [(0, 0), (3, 3), (3, 0), (0, 3)],            # self-intersecting
        [(0, 0), (2, 0), (2, 2), (1, 1), (0, 2)],
        [(1, 0), (2, 1), (1, 3), (0, 1), (1, 0)],    # closed
        [(0, 1), (1, 0), (2, 1), (3, 0), (3, 3), (2, 2), (1, 3), (0, 2),
         (1, 1), (2, 1), (1, 2), (0, 3)],            # 12 vertices
    ]
    offs = [(0.5, 0.25), (1.5, 2.5), (2.25, 0.75), (0.25, 2.75),
            (1.75, 1.25), (3.5, 1.0), (-0.5, 0.5), (1.0, 0.5), (2.5, 2.0)]
    for k in range(-20, 21):
        s = float(base) ** k
        for off in (0.0, s * 7):
            for poly in polys:
                verts = np.array(poly, dtype=float) * s + off
                pts = np.array(offs, dtype=float) * s + off
                fv = [(Fraction(float(x)), Fraction(float(y)))
                      for x, y in verts]
                exp = []
                keep = []
                for j, (px, py) in enumerate(pts):
                    fp = (Fraction(float(px)), Fraction(float(py)))
                    # skip points on the boundary of the *actual doubles*
                    onb = False
                    n = len(fv)
                    for i in range(n):
                        (x1, y1), (x2, y2) = fv[i], fv[(i + 1) % n]
                        cr = (x2 - x1) * (fp[1] - y1) - (y2 - y1) * (
                            fp[0] - x1)
                        # on the boundary of the actual doubles, or within
                        # rounding distance of it (a point that sits on an
                        # edge before scaling by 10^k is not a point "off
                        # the boundary" in any meaningful sense)
                        tol = Fraction(1, 10 ** 9) * Fraction(s) ** 2
                        ex = Fraction(1, 10 ** 9) * Fraction(s)
                        if abs(cr) <= tol \
                                and min(x1, x2) - ex <= fp[0] <= max(x1, x2) + ex \
                                and min(y1, y2) - ex <= fp[1] <= max(y1, y2) + ex:
                            onb = True
                    if not onb:
                        keep.append(j)
                        exp.append(_rational_inside(fp[0], fp[1], fv))
                got = np.asarray(points_in_poly(pts, verts))[keep]
                cnt += 1
                if got.tolist() != exp:
                    out.append(violation(
                        "dclab.external.skimage.pnpoly:points_in_poly",
                        "wrong-classification",
                        {"kind": "scale", "base": base, "k": k,
                         "off": off != 0.0, "poly": poly},
                        f"scale {base}^{k} offset {off}: got {got.tolist()} "
                        f"expected {exp}", {"variant": "scale",
                                            "offset": off != 0.0}))
    return cnt, out


def _big_case(args):
    """Several hundred thousand query points in one call (the lattice
    tiled): the classification of a point does not depend on how many
    points are classified with it; inversion is the complement."""
    from dclab.polygon_filter import PolygonFilter
    out = []
    cnt = 0
    QXb, QYb, QPb = lattice(G)
    reps = 3400                     # 81 * 3400 = 275400 points
    polys = [[(0, 0), (3, 0), (3, 3), (0, 3)],
             [(0, 0), (3, 3), (3, 0), (0, 3)],
             [(0, 1), (2, 0), (3, 2), (1, 3), (1, 1)]]
    for verts in polys:
        v = np.array(verts, float)
        inside, onb = exact_classify((v * 2).astype(int), QXb, QYb)
        ok = np.tile(~onb, reps)
        exp = np.tile(inside, reps)
        x = np.tile(QPb[:, 0], reps)
        y = np.tile(QPb[:, 1], reps)
        for inverted in (False, True):
            cnt += 1
            PolygonFilter.clear_all_filters()
            pf = PolygonFilter(axes=("area_um", "deform"), points=v,
                               inverted=inverted)
            got = pf.filter(x, y)
            want = ~exp if inverted else exp
            if got.shape != want.shape or not np.array_equal(got[ok],
                                                             want[ok]):
                bad = np.flatnonzero(ok & (got != want))
                out.append(violation(
                    PF + ".filter", "wrong-classification",
                    {"kind": "big", "verts": [list(q) for q in verts],
                     "inverted": inverted},
                    f"{len(x)} points in one call, inverted={inverted}: "
                    f"{len(bad)} wrong, first at index "
                    f"{bad[0] if len(bad) else None}",
                    {"nv": len(verts), "variant": "many-points"}))
    PolygonFilter.clear_all_filters()
    return cnt, out


def _polyfile_case(args):
    scratch, = args
    from dclab.polygon_filter import PolygonFilter
    out = []
    cnt = 0
    pool = [
        dict(axes=("area_um", "deform"),
             points=[[0.1, 0.2], [3.3, 0.1], [2.7, 3.9], [0.4, 2.2]],
             name="gate 1 (a=b)", inverted=False, unique_id=3),
        dict(axes=("deform", "area_um"),
             points=[[0, 0], [3, 3], [3, 0], [0, 3]],
             name="bow tie (µ)", inverted=True, unique_id=17),
        dict(axes=("bright_avg", "fl1_max"),
             points=[[1e-7, 2e5], [3e-7, 2e5], [2e-7, 9e5]],
             name="small*large", inverted=False, unique_id=0),
        dict(axes=("area_um", "aspect"),
             points=[[1 / 3, 0.1], [2.2, 1 / 7], [2.9, 2.9], [1.5, 1.0],
                     [0.2, 2.5]],
             name="None", inverted=True, unique_id=8),
        dict(axes=("pos_x", "pos_y"),
             points=[[-3.5, -1e-3], [123456789.123456, -2.0],
                     [5.0, 7.25e8], [-1e-12, 3.0]],
             name="offsets; negative [x] #1", inverted=False, unique_id=40),
        # SI-sized numbers: every significant digit sits far behind the
        # decimal point
        dict(axes=("volume", "area_um"),
             points=[[1.2345678901234e-13, 2.0e-13],
                     [9.8765432109876e-13, 1.0e-13],
                     [5.0e-13, 8.7654321098765e-13]],
             name="tiny", inverted=False, unique_id=41),
    ]
    rs = np.random.RandomState(5)
    for r in range(1, len(pool) + 1):
        for sub in itertools.combinations(range(len(pool)), r):
            cnt += 1
            case = {"kind": "polyfile", "subset": list(sub)}
            p = scratch / f"c15_{os.getpid()}.poly"
            if p.exists():
                p.unlink()
            try:
                PolygonFilter.clear_all_filters()
                pfs = [PolygonFilter(**pool[i]) for i in sub]
                ref = {}
                for pf in pfs:
                    pts = np.array(pf.points)
                    lo, hi = pts.min(0), pts.max(0)
                    q = rs.uniform(lo - 0.2 * (hi - lo), hi + 0.2 * (hi - lo),
                                   size=(60, 2))
                    ref[pf.unique_id] = (q, pf.filter(q[:, 0], q[:, 1]),
                                         pf.axes, pf.inverted, pf.name,
                                         pts)
                for pf in list(pfs):
                    q, cls = ref[pf.unique_id][0], ref[pf.unique_id][1]
                    c1 = pf.copy()
                    c2 = pf.copy(invert=True)
                    if not (np.array_equal(c1.filter(q[:, 0], q[:, 1]), cls)
                            and np.array_equal(c2.filter(q[:, 0], q[:, 1]),
                                               ~cls)
                            and c1.unique_id != pf.unique_id
                            and c2.unique_id not in (pf.unique_id,
                                                     c1.unique_id)
                            and np.array_equal(pf.filter(q[:, 0], q[:, 1]),
                                               cls)):
                        out.append(violation(
                            PF + ".copy", "copy-differs", case,
                            f"filter {pf.unique_id}: copy / inverted copy "
                            f"do not classify like / complementary to the "
                            f"original", {"variant": "copy"}))
                    PolygonFilter.remove(c1.unique_id)
                    PolygonFilter.remove(c2.unique_id)
                PolygonFilter.save_all(p)
                PolygonFilter.clear_all_filters()
                loaded = PolygonFilter.import_all(p)
                if sorted(pf.unique_id for pf in loaded) != sorted(ref):
                    out.append(violation(
                        PF + ".import_all", "wrong-identifiers", case,
                        f"{[pf.unique_id for pf in loaded]} != "
                        f"{sorted(ref)}", {"variant": "polyfile"}))
                    continue
                for pf in loaded:
                    q, cls, axes, inv, name, pts = ref[pf.unique_id]
                    probs = []
                    if list(pf.axes) != list(axes):
                        probs.append(f"axes {pf.axes} != {axes}")
                    if pf.inverted != inv:
                        probs.append(f"inverted {pf.inverted} != {inv}")
                    if pf.name != name:
                        probs.append(f"name {pf.name!r} != {name!r}")
                    if not np.allclose(pf.points, pts, rtol=1e-14, atol=0):
                        probs.append("points differ")
                    if not np.array_equal(pf.filter(q[:, 0], q[:, 1]), cls):
                        probs.append("classification differs")
                    if probs:
                        out.append(violation(
                            PF + ".import_all", "roundtrip-differs", case,
                            f"filter {pf.unique_id}: " + "; ".join(probs),
                            {"variant": "polyfile"}))
                # the same filters stored in descending order of their
                # identifiers, and a removed filter loaded again: an
                # identifier that is free must be kept
                PolygonFilter.clear_all_filters()
                pfs = [PolygonFilter(**pool[i]) for i in sub]
                ids = [pf.unique_id for pf in pfs]
                p.unlink()
                for pf in sorted(pfs, key=lambda f: -f.unique_id):
                    pf.save(p)
                PolygonFilter.clear_all_filters()
                got = [pf.unique_id for pf in PolygonFilter.import_all(p)]
                if sorted(got) != sorted(ids):
                    out.append(violation(
                        PF + ".import_all", "wrong-identifiers", case,
                        f"file written in descending id order: {got} != "
                        f"{sorted(ids, reverse=True)}",
                        {"variant": "descending-file"}))
                PolygonFilter.clear_all_filters()
                pfs = [PolygonFilter(**pool[i]) for i in sub]
                ids = [pf.unique_id for pf in pfs]
                p.unlink()
                PolygonFilter.save_all(p)
                low = min(ids)
                PolygonFilter.remove(low)
                again = PolygonFilter(filename=p, fileid=ids.index(low))
                if again.unique_id != low:
                    out.append(violation(
                        PF + "._set_unique_id", "wrong-identifiers", case,
                        f"filter {low} removed and loaded again from the "
                        f"file: identifier {again.unique_id}",
                        {"variant": "remove-then-load"}))
                # one file written in several sessions: save() appends, the
                # identifiers start at 0 again in every session, so sections
                # can share an identifier; each section is loaded with its
                # own content (by position in the file)
                if len(sub) >= 2:
                    p.unlink()
                    exp_sections = []
                    for i in sub:
                        PolygonFilter.clear_all_filters()
                        kw = dict(pool[i])
                        kw.pop("unique_id")
                        pfx = PolygonFilter(**kw)       # identifier 0
                        pfx.save(p)
                        exp_sections.append((list(pfx.axes), pfx.name,
                                             pfx.inverted,
                                             np.array(pfx.points)))
                    PolygonFilter.clear_all_filters()
                    loaded = PolygonFilter.import_all(p)
                    okk = len(loaded) == len(exp_sections) and len(
                        {lf.unique_id for lf in loaded}) == len(loaded)
                    for lf, (axs, nm, inv, pts) in zip(loaded, exp_sections):
                        okk = okk and list(lf.axes) == axs and \
                            lf.name == nm and lf.inverted == inv and \
                            np.allclose(lf.points, pts, rtol=1e-14, atol=0)
                    if not okk:
                        out.append(violation(
                            PF + ".import_all", "roundtrip-differs", case,
                            f"file written in {len(sub)} sessions (every "
                            f"section has identifier 0): loaded "
                            f"{[(lf.unique_id, lf.name) for lf in loaded]}, "
                            f"expected names "
                            f"{[e[1] for e in exp_sections]}",
                            {"variant": "sessions"}))
            except BaseException as e:
                out.append(violation(
                    PF + ".import_all", "exception", case,
                    f"{type(e).__name__}: {e}",
                    {"variant": "polyfile", "exc": type(e).__name__}))
            if p.exists():
                p.unlink()
    PolygonFilter.clear_all_filters()
    return cnt, out


def run(ctx):
    items = []
    npt = G * G
    plan = [(3, 1, 4), (4, 7, 4), (5, 1009, 4)] if ctx.quick else [
        (3, 1, 4), (4, 3, 4), (5, 101, 4), (3, 1, 5), (4, 11, 5),
        (5, 53, 3), (6, 211, 3)]
    for nv, variants, g in plan:
        total = (g * g) ** nv
        step = max(1, total // 128)
        for lo in range(0, total, step):
            items.append((nv, lo, min(lo + step, total), variants, g))
    res = par.pmap(_grid_case, items)
    res += par.pmap(_scale_case, [(2,), (10,)])
    res += par.pmap(_polyfile_case, [(ctx.scratch,)])
    res += par.pmap(_big_case, [()])
    viols = []
    cnt = 0
    nontriv = 0
    for r in res:
        cnt += r[0]
        viols.extend(r[1])
        # scale / .poly cases use polygons with interior throughout
        nontriv += r[2] if len(r) > 2 else r[0]
    cov = {"evaluations": cnt, "distinct_nontrivial": nontriv,
           "query_points_per_polygon": len(QX),
           "rule": "every vertex sequence of length 3,4 (quick) / 3,4,5 "
                   "(thorough) on the 4x4 integer grid (degenerate and "
                   "self-intersecting ones included) against all 81 "
                   "half-step lattice points that are not on the boundary "
                   "(exact integer arithmetic); a sample of every k-th "
                   "polygon additionally under all cyclic shifts, reversal, "
                   "repeated closing vertex, inversion and point_in_poly; 6 "
                   "polygons (up to 12 vertices) x scales 2^k and 10^k, "
                   "k=-20..20, x offset, with a rational oracle; non-trivial "
                   "= the polygon encloses at least one query point "
                   "(measured per polygon); all 15 "
                   "subsets of a 4-filter pool through a .poly file",
           "samples": [{"verts": [[0, 0], [3, 0], [1, 1], [0, 3]]},
                       {"scale": "10^-20", "poly": "bow tie"},
                       {"polyfile_subset": [0, 1, 3]}],
           "exhaustive": True}
    return {"level": LEVEL, "coverage": cov, "violations": viols,
            "assumptions": ["points on the boundary are excluded (exact "
                            "test)", "vertex coordinates from a 4x4 grid; "
                            "random float polygons are replaced by the "
                            "scale ladder"]}


def replay(case, ctx):
    if case["kind"] == "grid":
        verts = case["verts"]
        nv = len(verts)
        g = case.get("g", G)
        pts = [(x, y) for x in range(g) for y in range(g)]
        code = 0
        for i, v in enumerate(verts):
            code += pts.index(tuple(v)) * (len(pts) ** i)
        _, vs, _ = _grid_case((nv, code, code + 1, 1, g))
        return vs
    if case["kind"] == "scale":
        _, vs = _scale_case((case["base"],))
        return [v for v in vs if v["case"]["k"] == case["k"]
                and v["case"]["poly"] == case["poly"]]
    if case.get("kind") == "big":
        return [v for v in _big_case(())[1] if v["case"] == case]
    _, vs = _polyfile_case((ctx.scratch,))
    return [v for v in vs if v["case"]["subset"] == case["subset"]]
