"""C10 -- command-line tasks never leave a partial file at the output path.

Engine E2: for every task and generated input, every crossing of an HDF5
write / group or attribute creation / object copy / file close / rename /
unlink seam is (a) turned into an I/O error and (b) preceded by a process
kill.  Afterwards the file system is inspected.
"""
import hashlib
import os
import pathlib
import shutil
import zipfile

import h5py
import numpy as np

from .. import faults, gen, par
from ..boot import REPO
from ..runner import violation

PROPERTY = "C10"
LEVEL = "fault_enumeration"

TASKS = ["compress", "repack", "condense", "join", "split", "tdms2rtdc"]


def sha(p):
    return hashlib.sha256(pathlib.Path(p).read_bytes()).hexdigest()


def content_digest(path):
    """Digest of what an output file holds (loadability included)."""
    import dclab
    hh = hashlib.sha1()
    with h5py.File(path, "r") as h5:
        for k in sorted(h5.attrs):
            v = h5.attrs[k]
            if k == "experiment:run identifier":
                v = str(v)[:-5] if "-" in str(v) else str(v)
            hh.update(repr((k, np.asarray(v).tolist())).encode())

        def visit(name, obj):
            if isinstance(obj, h5py.Dataset):
                nm = name
                if name.startswith("basins/"):
                    # the key hashes absolute paths of the scratch directory
                    hh.update(b"basin-definition")
                    return
                if name.startswith("logs/"):
                    base = name[5:]
                    if base.startswith("dclab-export_"):
                        nm = "logs/dclab-export_*"
                    if base.startswith("dclab-") or base.endswith("_cfg"):
                        hh.update(nm.encode())
                        return
                hh.update(nm.encode())
                hh.update(repr((obj.shape, str(obj.dtype))).encode())
                if obj.shape and obj.shape[0]:
                    hh.update(np.asarray(obj[...]).tobytes())
        h5.visititems(visit)
    # loadable through dclab, every feature readable
    with dclab.new_dataset(path) as ds:
        n = len(ds)
        for feat in ds.features_innate:
            if feat == "trace":
                for t in ds["trace"].keys():
                    np.asarray(ds["trace"][t][:])
            elif feat == "contour":
                for i in range(n):
                    ds["contour"][i]
            else:
                ds[feat][:]
        hh.update(str(n).encode())
    return hh.hexdigest()


# -- scenarios ------------------------------------------------------------------

TDMS = {0: "fmt-tdms_2fl-no-image_2017.zip", 1: "fmt-tdms_fl-image_2016.zip",
        2: "fmt-tdms_minimal_2016.zip"}


def _tdms_fixture(scratch, variant):
    d = scratch / f"tdms_fixture_{variant}_{os.getpid()}"
    if not d.exists():
        d.mkdir()
        with zipfile.ZipFile(REPO / "tests/data" / TDMS[variant]) as z:
            z.extractall(d)
    return d


def prepare_inputs(task, variant, d, scratch):
    """Populate directory d with the inputs of a scenario (copied from a
    template that is generated once per process). Returns (inputs, outputs,
    call) where call() runs the task."""
    tpl = scratch / f"c10_tpl_{task}_{variant}"
    if not tpl.exists():
        tmp = scratch / f"c10_tpl_{task}_{variant}_{os.getpid()}.tmp"
        if tmp.exists():
            shutil.rmtree(tmp)
        tmp.mkdir()
        _make_inputs(task, variant, tmp, scratch)
        try:
            tmp.rename(tpl)
        except OSError:
            shutil.rmtree(tmp, ignore_errors=True)   # lost the race
    shutil.copytree(tpl, d, dirs_exist_ok=True)
    return _make_inputs(task, variant, d, scratch, create=False)


def _make_inputs(task, variant, d, scratch, create=True):
    from dclab import cli
    gen.register_user_features()
    n = {0: 5, 1: 12, 2: 7, 3: 5}[variant]

    def noisy(path):
        # variant 3: loading the input issues a warning (unknown metadata
        # key), so the tasks take their "record the warnings" branch
        if variant == 3:
            with h5py.File(path, "a") as h5:
                h5.attrs["setup:vf unknown key"] = "x"
                # ... and copying it does, too: a scalar feature without
                # stored summaries that consists of NaN only
                nev = h5["events/deform"].shape[0]
                if "volume" not in h5["events"]:
                    h5["events"].create_dataset(
                        "volume", data=np.full(nev, np.nan), chunks=(nev,))
    feats = None if variant != 2 else ["deform", "area_um", "time", "frame",
                                       "image", "mask", "index_online"]
    logs = {"vf-log": ["line 1", "line 2 µ"]}
    tabs = {"vf-tab": np.rec.fromarrays([np.arange(3.), np.arange(3.) * 2],
                                        names=["a", "b"])}
    if task in ("compress", "repack", "condense", "split"):
        src = d / "in.rtdc"
        ev = gen.make_events(n, seed=variant, feats=feats)
        if create:
            with gen.chunk_bytes(100 if variant == 1 else 1024 ** 2):
                gen.write_rtdc(src, ev, logs=logs, tables=tabs,
                               parts=[n] if variant != 1 else [5, 7])
            noisy(src)
        if task == "split":
            outs = [d / f"in_{i + 1:04d}.rtdc"
                    for i in range((n + 3) // 4)]
            return [src], outs, lambda: cli.split(
                path_in=src, path_out=d, split_events=4)
        out = d / "out.rtdc"
        fn = getattr(cli, task)
        return [src], [out], lambda: fn(path_in=src, path_out=out)
    if task == "join":
        ins = []
        for j in range(2 + (variant == 1)):
            p = d / f"in{j}.rtdc"
            if create:
                ev = gen.make_events(4 + j, seed=10 * variant + j,
                                     feats=feats)
                gen.write_rtdc(p, ev, meta=gen.complete_meta(
                    4 + j, time=f"12:0{j}:00", run_index=j + 1),
                    logs=logs if j == 0 else None)
                noisy(p)
            ins.append(p)
        out = d / "out.rtdc"
        return ins, [out], lambda: cli.join(paths_in=ins, path_out=out)
    if task == "tdms2rtdc":
        dd = d / "tdms"
        if create:
            fx = _tdms_fixture(scratch, variant)
            shutil.copytree(fx, dd)
            shutil.rmtree(fx)
        tdms = [p for p in sorted(dd.rglob("*.tdms"))
                if not p.name.endswith("_traces.tdms")][0]
        out = d / "out.rtdc"
        ins = [p for p in dd.rglob("*") if p.is_file()]
        return ins, [out], lambda: cli.tdms2rtdc(
            path_tdms=tdms, path_rtdc=out,
            compute_features=False)
    raise ValueError(task)


def _fresh_dir(scratch, tag):
    d = scratch / f"c10_{tag}_{os.getpid()}"
    if d.exists():
        shutil.rmtree(d)
    d.mkdir(parents=True)
    return d


def _golden(args):
    task, variant, preexist, scratch = args
    d = _fresh_dir(scratch, f"g_{task}_{variant}")
    try:
        ins, outs, call = prepare_inputs(task, variant, d, scratch)
        res = faults.run_child(call)
        if res["status"] != "ok":
            return {"error": f"golden run failed: {res}"}
        if task == "split":
            # the names of the parts are the tool's choice: take them from
            # the fault-free run
            outs = sorted(x for x in d.rglob("*.rtdc") if x not in ins)
        missing = [str(o) for o in outs if not o.exists()]
        if missing:
            return {"error": f"golden run did not create {missing}; "
                             f"dir has {sorted(p.name for p in d.iterdir())}"}
        return {"K": res["count"], "trace": res["trace"],
                "out_names": [str(o.relative_to(d)) for o in outs],
                "digests": [content_digest(o) for o in outs]}
    finally:
        shutil.rmtree(d, ignore_errors=True)


def _fault_case(args):
    task, variant, preexist, k, kind, second, golden, scratch = args
    d = _fresh_dir(scratch, f"f_{task}_{variant}")
    out = []
    case = {"task": task, "variant": variant, "preexist": preexist, "k": k,
            "kind": kind, "second": second}
    seam = golden["trace"][k - 1] if k - 1 < len(golden["trace"]) else "?"
    tags = {"task": task, "kind": kind}
    where = f"dclab.cli.task_{task}:{task}"

    def bad(symptom, detail, **extra):
        out.append(violation(where, symptom, case,
                             f"{task} variant {variant}, {kind} at crossing "
                             f"{k}/{golden['K']} ({seam}): {detail}",
                             dict(tags, **extra)))
    try:
        ins, outs, call = prepare_inputs(task, variant, d, scratch)
        outs = [d / nm for nm in golden["out_names"]]
        old_digest = None
        if preexist:
            # a complete older result already sits at the output path
            first_in = [p for p in ins if p.suffix == ".rtdc"]
            if first_in:
                for o in outs:
                    shutil.copy(first_in[0], o)
                old_digest = content_digest(outs[0])
        before = {p: sha(p) for p in ins}
        res = faults.run_child(call, target=k, kind=kind, second=second)
        if res["status"] == "crashed":
            raise RuntimeError(f"harness child crashed: {res['exc']}")
        for p, h in before.items():
            if not p.exists():
                bad("input-removed", f"input {p.name} is gone")
            elif sha(p) != h:
                bad("input-modified", f"input {p.name} changed")
        complete = 0
        for o, gd in zip(outs, golden["digests"]):
            if not o.exists():
                continue
            try:
                dg = content_digest(o)
            except BaseException as e:
                bad("partial-output",
                    f"{o.name} exists but is not loadable: "
                    f"{type(e).__name__}: {str(e)[:200]}", seam=seam)
                continue
            if dg == gd or (old_digest is not None and dg == old_digest):
                complete += 1
            else:
                bad("partial-output",
                    f"{o.name} exists, loads, but differs from the complete "
                    f"result (task status: {res['status']}, {res['exc']})",
                    seam=seam)
        # (A task that swallows the injected error and returns without an
        # output leaves "output absent": allowed by the property, so it is
        # not reported.  Only a fault-free run must produce its outputs.)
        if res["status"] == "ok" and not res["fired"] \
                and complete != len(outs):
            bad("success-without-output",
                f"no fault fired, the task returned normally, but only "
                f"{complete}/{len(outs)} complete outputs exist", seam=seam)
        allowed = set(ins) | set(outs)
        # anything else the task leaves behind is temporary data; it must
        # not look like a dataset (".rtdc") unless it is a complete one
        for p in d.rglob("*.rtdc"):
            if p.is_file() and p not in allowed:
                try:
                    content_digest(p)
                except BaseException as e:
                    bad("partial-output",
                        f"left-over file {p.name} has the dataset suffix "
                        f"but is not loadable: {type(e).__name__}",
                        seam=seam)
        status = res["status"]
        fired = bool(res["fired"])
    finally:
        shutil.rmtree(d, ignore_errors=True)
    return status, fired, seam, out


def _outpath_case(args):
    """Output paths that need the suffix correction, or that collide with
    an input (as given, or after the correction): whatever the task does,
    the inputs stay byte-identical, and every .rtdc file found afterwards
    is complete."""
    task, how, scratch = args
    from dclab import cli
    d = _fresh_dir(scratch, f"o_{task}_{how}")
    out = []
    case = {"task": task, "variant": 0, "preexist": False, "k": 0,
            "kind": "outpath", "second": how}
    where = f"dclab.cli.task_{task}:{task}"
    tags = {"task": task, "kind": "outpath", "how": how}
    try:
        ins, outs, gold_call = prepare_inputs(task, 0, d, scratch)
        if task == "tdms2rtdc":
            first = [p for p in sorted(ins) if p.suffix == ".tdms"
                     and not p.name.endswith("_traces.tdms")][0]
        else:
            first = [p for p in ins if p.suffix == ".rtdc"][0]
        # what the task produces for these inputs (plain output path)
        gold = None
        try:
            gold_call()
            gold = content_digest(outs[0])
        except BaseException:
            pass
        for o in outs:
            if o.exists():
                o.unlink()
        if how.startswith("last-"):
            # a task with several inputs: the output coincides with an
            # input that is not the first one
            first = [p for p in ins if p.suffix == ".rtdc"][-1]
            how_ = how[5:]
        else:
            how_ = how
        given = {"other-suffix": d / "result.compressed",
                 # the right suffix in another case
                 "upper-suffix": d / "result.RTDC",
                 "mixed-suffix": d / "result.Rtdc",
                 "no-suffix": d / "result",
                 "same-as-input": first,
                 "input-stem": first.with_suffix(""),
                 "input-stem-other-suffix": first.with_suffix(".new"),
                 # the input again, spelled differently
                 "same-via-dotdot": d / "sub" / ".." / first.name,
                 "same-relative": pathlib.Path(first.name),
                 "stem-via-dotdot": d / "sub" / ".." / first.stem,
                 # a requested name that looks like dclab's temporary one
                 "tilde-suffix": d / "result.rtdc~",
                 }[how_]
        (d / "sub").mkdir(exist_ok=True)
        here = os.getcwd()
        if how == "same-relative":
            os.chdir(d)
        before = {p: sha(p) for p in ins}
        fn = getattr(cli, task)

        def call():
            if task == "join":
                fn(paths_in=ins, path_out=given)
            elif task == "tdms2rtdc":
                fn(path_tdms=first, path_rtdc=given, compute_features=False)
            else:
                fn(path_in=first, path_out=given)
        if how in ("tilde-suffix", "upper-suffix"):
            # with injected failures: whatever name the tool derives, the
            # *requested* path never holds an incomplete file
            K = faults.run_child(call)["count"]
            for x in d.glob("result*"):
                x.unlink()
            for k in sorted(set(range(1, K + 1, max(1, K // 10))) | {K}):
                res = faults.run_child(call, target=k, kind="error")
                if given.exists():
                    try:
                        content_digest(given)
                    except BaseException as e:
                        out.append(violation(
                            where, "partial-output", dict(case, k=k),
                            f"{task} asked to write '{given.name}', error "
                            f"at crossing {k}/{K}: the requested path "
                            f"holds an incomplete file "
                            f"({type(e).__name__})", tags))
                        break
                for x in d.glob("result*"):
                    x.unlink()
        try:
            call()
            status = "ok"
        except BaseException as e:
            status = f"{type(e).__name__}: {e}"
        finally:
            os.chdir(here)
        for p, h in before.items():
            if not p.exists():
                out.append(violation(
                    where, "input-removed", case,
                    f"{task} with output path '{given.name}' ({how}): "
                    f"input {p.name} is gone (task: {status[:120]})", tags))
            elif sha(p) != h:
                out.append(violation(
                    where, "input-modified", case,
                    f"{task} with output path '{given.name}' ({how}): "
                    f"input {p.name} changed (task: {status[:120]})", tags))
        # Where exactly the result goes for a path without the .rtdc
        # suffix is the tool's business; whatever .rtdc file exists
        # afterwards (apart from the inputs) must be complete.
        produced = [x for x in d.rglob("*") if x.is_file() and x not in ins
                    and x.suffix.lower() == ".rtdc"]
        digests = {}
        for x in produced:
            try:
                digests[x] = content_digest(x)
            except BaseException as e:
                out.append(violation(
                    where, "partial-output", case,
                    f"{x.name} (task: {status[:80]}) is not loadable: "
                    f"{type(e).__name__}: {e}", tags))
        if status == "ok" and gold is not None:
            # a task that reports success has produced the result somewhere
            # (under a name of its choice), and the file at the requested
            # path - if there is one - is that result, not a part of it
            if gold not in digests.values():
                out.append(violation(
                    where, "success-without-result", case,
                    f"{task} with output path '{given.name}' ({how}) "
                    f"returned normally but none of "
                    f"{sorted(x.name for x in produced)} holds what the "
                    f"task produces for a plain output path", tags))
            req = [x for x in digests if x.name == given.name]
            if req and digests[req[0]] != gold:
                out.append(violation(
                    where, "wrong-output", case,
                    f"{task}: the file at the requested path "
                    f"'{given.name}' ({how}) differs from what the task "
                    f"produces for a plain output path", tags))
    finally:
        shutil.rmtree(d, ignore_errors=True)
    return out


def run(ctx):
    scratch = ctx.scratch
    variants = (0, 3) if ctx.quick else (0, 1, 2, 3)
    gitems = [(t, v, False, scratch) for t in TASKS for v in variants
              if not (t == "tdms2rtdc" and v == 3)]
    goldens = par.pmap(_golden, gitems)
    items = []
    info = {}
    viols0 = []
    for (task, variant, _, _), g in zip(gitems, goldens):
        if "error" in g:
            # the task does not even complete without any fault
            viols0.append(violation(
                f"dclab.cli.task_{task}:{task}", "task-fails-without-fault",
                {"task": task, "variant": variant, "preexist": False,
                 "k": 0, "kind": "none", "second": None},
                f"{task} variant {variant}: {g['error']}", {"task": task}))
            continue
        info[f"{task}/{variant}"] = g["K"]
        for k in range(1, g["K"] + 1):
            for kind in ("error", "kill"):
                items.append((task, variant, False, k, kind, None, g,
                              scratch))
            if ctx.thorough and variant == 0:
                for s in (k + 1, k + 2, k + 3):
                    items.append((task, variant, False, k, "error", s, g,
                                  scratch))
        # a complete older file at the output path: every 3rd crossing
        if task in ("compress", "repack", "condense", "join"):
            for k in range(1, g["K"] + 1, 1 if ctx.thorough else 3):
                items.append((task, variant, True, k, "error", None, g,
                              scratch))
    res = par.pmap(_fault_case, items)
    viols = list(viols0)
    oitems = [(t, how, scratch)
              for t in ("compress", "repack", "condense", "join")
              for how in ("other-suffix", "no-suffix", "same-as-input",
                          "input-stem", "input-stem-other-suffix",
                          "same-via-dotdot", "same-relative",
                          "stem-via-dotdot", "tilde-suffix",
                          "upper-suffix", "mixed-suffix")]
    oitems += [("join", "last-" + how, scratch)
               for how in ("same-as-input", "input-stem", "same-via-dotdot",
                           "stem-via-dotdot")]
    oitems += [("tdms2rtdc", how, scratch)
               for how in ("other-suffix", "no-suffix", "tilde-suffix",
                           "upper-suffix", "mixed-suffix")]
    for vs in par.pmap(_outpath_case, oitems):
        viols.extend(vs)
    statuses = {}
    seams = set()
    temp_left = 0
    for status, fired, seam, vs in res:
        statuses[status] = statuses.get(status, 0) + 1
        seams.add(seam)
        viols.extend(vs)
        temp_left += fired
    cov = {
        "evaluations": len(items),
        "distinct_nontrivial": temp_left,
        "rule": "one case = (task, input variant, seam crossing k, fault "
                "kind[, second fault]); non-trivial = the fault actually "
                "fired in the child; after each case inputs are hashed, each "
                "output must be absent or loadable and equal to the "
                "fault-free result; left-over files must not carry the "
                "dataset suffix unless they are complete",
        "crossings_per_scenario": info,
        "output_path_cases": len(oitems),
        "outcomes": statuses,
        "seam_kinds": sorted(seams),
        "samples": [{"task": i[0], "variant": i[1], "k": i[3], "kind": i[4],
                     "second": i[5]} for i in
                    (items[0], items[len(items) // 2], items[-1])],
        "exhaustive": True,
    }
    return {"level": LEVEL, "coverage": cov, "violations": viols,
            "assumptions": [
                "process death modelled by os._exit before the operation "
                "(no power loss / torn sector model)",
                "command logs (dclab-*, *_cfg) are compared by name only"]}


def replay(case, ctx):
    if case.get("kind") == "outpath":
        return _outpath_case((case["task"], case["second"], ctx.scratch))
    g = _golden((case["task"], case["variant"], case["preexist"],
                 ctx.scratch))
    if "error" in g:
        return [violation(f"dclab.cli.task_{case['task']}:{case['task']}",
                          "task-fails-without-fault", case, g["error"],
                          {"task": case["task"]})]
    _, _, _, vs = _fault_case((case["task"], case["variant"],
                               case["preexist"], case["k"], case["kind"],
                               case["second"], g, ctx.scratch))
    return vs
