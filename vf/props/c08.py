"""C08 -- compress / repack / condense / tdms2rtdc preserve dataset content.

E3: the copier decides per HDF5 dataset from that dataset's own storage
layout, so the layout space factorises: generated files carry one dataset per
cell of {scalar, image, trace member, contour entry, log, table, basin
definition} x {contiguous, chunked, chunk > data, gzip, lzf, zstd-1, zstd-5,
+/- fletcher32, variable-length strings, empty}.  Every cell x task x option
is run.  Oracle: a structural HDF5 comparator written here.
"""
import hashlib
import itertools
import os
import shutil
import zipfile

import h5py
import hdf5plugin
import numpy as np

from .. import gen, par
from ..boot import REPO
from ..runner import violation

PROPERTY = "C08"
LEVEL = "exploration"
N = 6

LAYOUTS = {
    "contiguous": dict(),
    "chunked": dict(chunks="half"),
    "chunk>data": dict(chunks="big", maxshape="unl"),
    "gzip": dict(chunks="half", compression="gzip"),
    "gzip+f32": dict(chunks="half", compression="gzip", fletcher32=True),
    "lzf": dict(chunks="half", compression="lzf"),
    "f32only": dict(chunks="half", fletcher32=True),
    "zstd1": dict(chunks="half", zstd=1),
    "zstd5": dict(chunks="half", zstd=5),
    "zstd5+f32": dict(chunks="half", zstd=5, fletcher32=True),
    "zstd9-big": dict(chunks="big", maxshape="unl", zstd=9),
    # pre-allocated datasets with a non-zero fill value of which only the
    # first chunk was ever written (the other chunks do not exist in the
    # file; reading them yields the fill value)
    "prealloc": dict(chunks="third", prealloc=True),
    "prealloc-gzip": dict(chunks="third", prealloc=True,
                          compression="gzip"),
}
SCALARS = ["deform", "area_um", "bright_avg", "pos_x", "pos_y", "size_x",
           "size_y", "area_cvx", "area_msd", "tilt", "bright_sd", "temp"]


def _create(grp, name, data, layout):
    spec = dict(LAYOUTS[layout])
    kw = {}
    shape = data.shape
    ch = spec.pop("chunks", None)
    pre = spec.pop("prealloc", False)
    if ch == "third":
        if pre and data.dtype.kind in "fiu" and shape[0] >= 2:
            rows = max(1, shape[0] // 3)
            # finite: NaN positions would make volume uncomputable
            fill = 7.25 if data.dtype.kind == "f" else 7
            ds = grp.create_dataset(name, shape=shape, dtype=data.dtype,
                                    chunks=(rows,) + shape[1:],
                                    fillvalue=fill, **spec)
            ds[:rows] = data[:rows]
            return ds
        ch = "half"
    if ch == "half":
        kw["chunks"] = (max(1, shape[0] // 2),) + shape[1:]
    elif ch == "big":
        kw["chunks"] = (shape[0] + 4,) + shape[1:]
    if spec.pop("maxshape", None):
        kw["maxshape"] = (None,) + shape[1:]
    z = spec.pop("zstd", None)
    if z:
        kw.update(hdf5plugin.Zstd(clevel=z))
    kw.update(spec)
    return grp.create_dataset(name, data=data, **kw)


NMANY = 71


def build_many(path, variant, seed):
    """Datasets made of many (> 32, > 64) small chunks: the chunk-wise copy
    loops of the tasks run over many iterations and end with a partial
    block, as they do for real files with tens of thousands of events."""
    n = NMANY
    rs = np.random.RandomState(seed + 77)
    filt = [dict(), dict(compression="gzip"), hdf5plugin.Zstd(clevel=1),
            dict(compression="lzf"), hdf5plugin.Zstd(clevel=5),
            dict(fletcher32=True)]
    with h5py.File(path, "w") as h5:
        for sec, dd in gen.complete_meta(n).items():
            for k, v in dd.items():
                h5.attrs[f"{sec}:{k}"] = v
        h5.attrs["setup:software version"] = "ShapeIn 2.2.2.4 | dclab 0.62.7"
        events = h5.create_group("events")
        k = variant
        for i, feat in enumerate(SCALARS[:6]):
            data = np.round(rs.uniform(1, 50, n), 4)
            events.create_dataset(feat, data=data, chunks=(1 + i % 2,),
                                  **filt[(i + k) % len(filt)])
        events.create_dataset("frame", data=np.arange(n, dtype=np.uint64)
                              * 3 + 1, chunks=(2,), **filt[k % len(filt)])
        img = rs.randint(0, 255, (n,) + gen.IMG_SHAPE).astype(np.uint8)
        for i, feat in enumerate(["image", "image_bg"]):
            d_ = events.create_dataset(
                feat, data=img + i, chunks=(1 + i,) + gen.IMG_SHAPE,
                **filt[(k + 2 * i + 1) % len(filt)])
            d_.attrs.create("CLASS", np.bytes_("IMAGE"))
        events.create_dataset(
            "mask", data=(img > 128).astype(np.uint8) * 255,
            chunks=(2,) + gen.IMG_SHAPE, **filt[(k + 2) % len(filt)])
        tr = events.create_group("trace")
        for i, t in enumerate(["fl1_raw", "fl1_median"]):
            tr.create_dataset(
                t, data=rs.randint(-50, 900, (n, gen.TRACE_LEN)).astype(
                    np.int16), chunks=(1 + i, gen.TRACE_LEN),
                **filt[(k + i + 3) % len(filt)])
        logs = h5.create_group("logs")
        logs.create_dataset("long-log", data=np.array(
            [f"line {j} µ".encode() for j in range(n)], dtype="S40"),
            chunks=(2,), **filt[(k + 1) % len(filt)])
    return path


def build_file(path, variant, seed, scratch):
    """Write a file with raw h5py covering a slice of the layout matrix."""
    if variant >= 100:
        return build_many(path, variant - 100, seed)
    rs = np.random.RandomState(seed + 5)
    lay = list(LAYOUTS)
    ev = gen.make_events(N, seed=seed, special=False)
    with h5py.File(path, "w") as h5:
        for sec, dd in gen.complete_meta(N).items():
            for k, v in dd.items():
                h5.attrs[f"{sec}:{k}"] = v
        h5.attrs["setup:software version"] = "ShapeIn 2.2.2.4 | dclab 0.62.7"
        h5.attrs["user:my key"] = 3.5
        events = h5.create_group("events")
        # scalars: one layout per feature
        for i, feat in enumerate(SCALARS):
            data = np.round(rs.uniform(1, 50, N), 4)
            if feat == "deform":
                data[2] = np.nan
            ds = _create(events, feat, data, lay[(i + variant) % len(lay)])
            if i % 2 == 0:
                ds.attrs["min"] = np.nanmin(data)
                ds.attrs["max"] = np.nanmax(data)
                ds.attrs["mean"] = np.nanmean(data)
            if i % 3 == 0:
                ds.attrs["vf note"] = "attribute to keep"
        _create(events, "frame", ev["frame"].astype(np.uint64),
                lay[variant % len(lay)])
        _create(events, "index_online", ev["index_online"].astype(np.uint32),
                "contiguous")
        _create(events, "fl1_max", ev["fl1_max"].astype(np.uint32),
                lay[(variant + 3) % len(lay)])
        # non-scalar features
        for i, feat in enumerate(["image", "image_bg", "mask"]):
            data = ev[feat] if feat != "mask" else \
                ev["mask"].astype(np.uint8) * 255
            ds = _create(events, feat, data,
                         lay[(3 * variant + i) % len(lay)])
            ds.attrs.create("CLASS", np.bytes_("IMAGE"))
        tr = events.create_group("trace")
        for i, t in enumerate(["fl1_raw", "fl1_median", "fl2_raw"]):
            src = ev["trace"]["fl1_raw"] if i != 1 else \
                ev["trace"]["fl1_median"]
            _create(tr, t, src + i, lay[(2 * variant + i + 5) % len(lay)])
        cg = events.create_group("contour")
        for i in range(N):
            _create(cg, str(i), ev["contour"][i].astype(np.uint8),
                    lay[(variant + i) % len(lay)] if ev["contour"][
                        i].shape[0] > 1 else "contiguous")
        # logs: fixed- and variable-length, empty, long
        logs = h5.create_group("logs")
        for i, layout in enumerate(lay):
            lines = [f"log {layout} line {k} µ".encode("utf-8")
                     for k in range(3 + i % 2)]
            _create(logs, f"log-{layout}", np.array(lines, dtype="S60"),
                    layout)
        vl = h5py.string_dtype()
        logs.create_dataset("log-vlen", data=np.array(
            ["variable length µ line", "x" * 130,
             # more bytes than characters, longer than 100 bytes
             "µ°" * 35 + " 23.5 °C [end]"], dtype=object), dtype=vl)
        logs.create_dataset("log-vlen-chunked", data=np.array(
            ["a", "bb"], dtype=object), dtype=vl, chunks=(1,),
            maxshape=(None,))
        logs.create_dataset("log-empty", shape=(0,), dtype="S100",
                            maxshape=(None,), chunks=True)
        logs.create_dataset("log-empty-vlen", shape=(0,), dtype=vl,
                            maxshape=(None,), chunks=True)
        # tables
        tabs = h5.create_group("tables")
        rec = np.rec.fromarrays([np.arange(4.0), rs.uniform(0, 1, 4)],
                                names=["time", "value"])
        for i, layout in enumerate(["contiguous", "chunked", "gzip",
                                    "zstd5+f32"]):
            t = _create(tabs, f"tab-{layout}", rec, layout)
            if i % 2 == 0:
                t.attrs["COLOR_value"] = "red"
                t.attrs["vf"] = 1.5
        # basins: an internal and a file basin (two definitions)
        if variant % 2 == 0:
            from dclab.rtdc_dataset.writer import RTDCWriter
            origin = path.parent / "origin.rtdc"
            gen.write_rtdc(origin, {"volume": np.arange(N) * 10.0 + 1,
                                    "deform": ev["deform"]},
                           meta=gen.complete_meta(N, fl=False))
            with RTDCWriter(h5) as hw:
                hw.store_basin("vf-internal", "internal", "h5dataset",
                               ["basin_events"], basin_feats=["userdef2"],
                               basin_map=np.array([0, 0, 1, 2, 2, 1],
                                                  dtype=np.uint64),
                               internal_data={"userdef2":
                                              np.array([5.5, 6.5, 7.5])})
                hw.store_basin("vf-file", "file", "hdf5", [str(origin)],
                               basin_feats=["volume"])
    return path


def _decode(a):
    a = np.asarray(a)
    if a.dtype.kind in "OS":
        return [x.decode("utf-8") if isinstance(x, bytes) else str(x)
                for x in a.tolist()]
    return None


COMPARED = [0]      # datasets compared by compare_h5 in this process


def compare_h5(pin, pout, case, tags, where, strip_logs=False,
               strip_basins=False, scalar_only=False, ignore_logs=()):
    """Every dataset of the input must be in the output with equal values
    and attributes (modulo documented additions / stripped parts)."""
    out = []

    def bad(symptom, detail, **t):
        out.append(violation(where, symptom, case, detail, dict(tags, **t)))
    with h5py.File(pin, "r") as a, h5py.File(pout, "r") as b:
        for k in a.attrs:
            va, vb = a.attrs[k], b.attrs.get(k)
            if k == "setup:software version":
                continue
            if vb is None or str(va) != str(vb):
                bad("wrong-metadata", f"{k}: {vb!r} != {va!r}", key=k)

        def visit(name, obj):
            if not isinstance(obj, h5py.Dataset):
                return
            top = name.split("/")[0]
            if top == "logs" and any(name[5:].startswith(p)
                                     for p in ignore_logs):
                return      # the command log is added / renamed by design
            if top == "logs" and strip_logs:
                if name in b:
                    bad("not-stripped", name)
                return
            if top in ("basins", "basin_events") and strip_basins:
                if name in b:
                    bad("not-stripped", name)
                return
            if name.startswith("events/basinmap") and strip_basins:
                return
            if scalar_only and top == "events":
                if obj.ndim != 1 or "/" in name[len("events/"):]:
                    return
            if obj.shape[0] == 0:
                return          # zero-length datasets are equivalent to absent
            kind = top if top != "events" else (
                "scalar" if obj.ndim == 1 and name.count("/") == 1 else
                name.split("/")[1])
            lay = _layout_of(obj)
            if name not in b:
                bad("dataset-missing", f"{name} ({lay})", kind=kind)
                return
            ob = b[name]
            COMPARED[0] += 1
            da, db = _decode(obj[...]), None
            if da is not None:
                db = _decode(ob[...])
                same = da == db
            elif obj.dtype.names:
                same = obj.dtype.names == ob.dtype.names and all(
                    gen.arrays_equal(np.ravel(obj[c]), np.ravel(ob[c]))
                    for c in obj.dtype.names)
            else:
                same = obj.dtype == ob.dtype and gen.arrays_equal(
                    obj[...], ob[...])
            if not same:
                bad("wrong-data", f"{name} ({lay})", kind=kind)
            for k in obj.attrs:
                if k not in ob.attrs or str(np.asarray(obj.attrs[k]).tolist()
                                            ) != str(np.asarray(
                                                ob.attrs[k]).tolist()):
                    bad("attribute-lost",
                        f"{name}: attribute '{k}' = {obj.attrs[k]!r} -> "
                        f"{ob.attrs.get(k)!r}", kind=kind)
        a.visititems(visit)
    return out


def _layout_of(ds):
    pl = ds.id.get_create_plist()
    filters = [pl.get_filter(i)[0] for i in range(pl.get_nfilters())]
    return f"chunks={ds.chunks} filters={filters} dtype={ds.dtype}"


def sha(p):
    return hashlib.sha256(p.read_bytes()).hexdigest()


def _task_case(args):
    task, opts, variant, seed, scratch = args
    from dclab import cli
    d = scratch / f"c08_{task}_{variant}_{os.getpid()}"
    if d.exists():
        shutil.rmtree(d)
    d.mkdir()
    out = []
    COMPARED[0] = 0
    case = {"kind": "task", "task": task, "opts": opts, "variant": variant,
            "seed": seed}
    tags = {"task": task}
    where = f"dclab.cli.task_{task}:{task}"
    try:
        src = build_file(d / "in.rtdc", variant, seed, d)
        before = sha(src)
        o1 = d / "out1.rtdc"
        if task == "compress":
            cli.compress(path_in=src, path_out=o1)
            out += compare_h5(src, o1, case, tags, where)
        elif task == "repack":
            cli.repack(path_in=src, path_out=o1, **opts)
            out += compare_h5(src, o1, case, tags, where,
                              strip_logs=opts.get("strip_logs", False),
                              strip_basins=opts.get("strip_basins", False))
        elif task == "condense":
            cli.condense(path_in=src, path_out=o1, **opts)
            out += compare_h5(src, o1, case, tags, where, scalar_only=True)
            out += _condense_scalars(src, o1, opts, case, tags, where)
        if sha(src) != before:
            out.append(violation(where, "input-modified", case, "", tags))
        # loadable and same features through dclab
        import dclab
        with dclab.new_dataset(o1) as ds:
            ds.features_innate
        if task in ("compress", "repack"):
            o2 = d / "out2.rtdc"
            if task == "compress":
                cli.compress(path_in=o1, path_out=o2)
            else:
                cli.repack(path_in=o1, path_out=o2, **opts)
            vs = compare_h5(o1, o2, case, dict(tags, second=True), where,
                            strip_logs=opts.get("strip_logs", False),
                            strip_basins=opts.get("strip_basins", False),
                            ignore_logs=("dclab-compress",))
            out += vs
    except BaseException as e:
        out.append(violation(where, "exception", case,
                             f"{type(e).__name__}: {e}",
                             dict(tags, exc=type(e).__name__)))
    finally:
        shutil.rmtree(d, ignore_errors=True)
    return out, COMPARED[0]


def _condense_scalars(src, o1, opts, case, tags, where):
    import dclab
    out = []
    # with basin features excluded by option, the input is read the same
    # way the task reads it (basins disabled)
    with dclab.new_dataset(
            src, enable_basins=opts.get("store_basin_features", True)
            ) as di, dclab.new_dataset(o1) as do:
        feats = set(di.features_loaded) & set(di.features_scalar)
        if opts.get("store_basin_features", True):
            feats |= set(di.features_basin) & set(di.features_scalar)
        if opts.get("store_ancillary_features", True):
            feats |= set(di.features_ancillary) & set(di.features_scalar)
        for f in sorted(feats):
            if f not in do:
                out.append(violation(where, "feature-missing", case, f,
                                     dict(tags, feat=f)))
                continue
            a = np.asarray(di[f][:], float)
            b = np.asarray(do[f][:], float)
            if a.shape != b.shape or not np.allclose(a, b, rtol=1e-12,
                                                     atol=0, equal_nan=True):
                out.append(violation(where, "wrong-data", case,
                                     f"{f}: {b} != {a}", dict(tags, feat=f)))
    return out


def _tdms_case(args):
    name, compute, scratch = args
    import dclab
    from dclab import cli
    d = scratch / f"c08_tdms_{name[:-4]}_{int(compute)}_{os.getpid()}"
    if d.exists():
        shutil.rmtree(d)
    d.mkdir()
    out = []
    ncmp = 0
    case = {"kind": "tdms", "name": name, "compute": compute}
    where = "dclab.cli.task_tdms2rtdc:tdms2rtdc"
    tags = {"task": "tdms2rtdc"}
    try:
        with zipfile.ZipFile(REPO / "tests/data" / name) as z:
            z.extractall(d)
        tdms = [p for p in sorted(d.rglob("*.tdms"))
                if not p.name.endswith("_traces.tdms")][0]
        before = {p: sha(p) for p in d.rglob("*") if p.is_file()}
        o = d / "out.rtdc"
        cli.tdms2rtdc(path_tdms=tdms, path_rtdc=o, compute_features=compute,
                      skip_initial_empty_image=False,
                      skip_final_empty_image=False)
        for p, h in before.items():
            if sha(p) != h:
                out.append(violation(where, "input-modified", case, p.name,
                                     tags))
        with dclab.new_dataset(tdms) as di, dclab.new_dataset(o) as do:
            feats = di.features if compute else di.features_innate
            lmin = len(do)
            for f in feats:
                ncmp += 1
                if f not in do.features_innate:
                    out.append(violation(where, "feature-missing", case, f,
                                         dict(tags, feat=f)))
                    continue
                if f == "trace":
                    ok = all(gen.arrays_equal(
                        np.asarray(do[f][t][:lmin]),
                        np.asarray([di[f][t][i] for i in range(lmin)]))
                        for t in di[f].keys())
                elif f in ("contour", "image", "mask"):
                    idx = sorted({0, lmin // 2, lmin - 1})
                    ok = all(gen.arrays_equal(do[f][i], di[f][i])
                             for i in idx)
                elif f == "index":
                    ok = True
                else:
                    ok = gen.arrays_equal(np.asarray(do[f][:]),
                                          np.asarray(di[f][:lmin]))
                if not ok:
                    t = dict(tags, feat=f)
                    detail = f
                    if f not in ("trace", "contour", "image", "mask"):
                        a = np.asarray(di[f][:lmin])
                        b = np.asarray(do[f][:])
                        diff = np.flatnonzero(a != b)
                        # negative values stored into an unsigned dataset?
                        t["negative_clipped"] = bool(
                            len(diff) and np.all(a[diff] < 0)
                            and np.all(b[diff] == 0))
                        detail = (f"{f}: source {a[diff][:5].tolist()} "
                                  f"({a.dtype}) -> {b[diff][:5].tolist()} "
                                  f"({b.dtype}) at {diff[:5].tolist()}")
                    out.append(violation(where, "wrong-data", case, detail,
                                         t))
    except BaseException as e:
        out.append(violation(where, "exception", case,
                             f"{type(e).__name__}: {e}",
                             dict(tags, exc=type(e).__name__)))
    finally:
        shutil.rmtree(d, ignore_errors=True)
    return out, ncmp


def _defective_case(args):
    """A stored feature that dclab distrusts (`time` written by Shape-In and
    last touched by dclab < 0.47.6): dclab recomputes it for the input, so
    the output, whose version string is new, must not carry the stored
    values along as trusted data.  Oracle: every scalar feature read
    through dclab is the same for input and output."""
    task, layout, seed, scratch = args
    import dclab
    from dclab import cli
    d = scratch / f"c08_def_{task}_{layout}_{os.getpid()}"
    if d.exists():
        shutil.rmtree(d)
    d.mkdir()
    out = []
    case = {"kind": "defective", "task": task, "layout": layout,
            "seed": seed}
    where = f"dclab.cli.task_{task}:{task}"
    tags = {"task": task, "defective": True}
    try:
        src = d / "in.rtdc"
        ev = gen.make_events(N, seed=seed, special=False,
                             feats=["deform", "area_um", "frame",
                                    "index_online", "image", "mask"])
        with h5py.File(src, "w") as h5:
            for sec, dd in gen.complete_meta(N, fl=False).items():
                for k, v in dd.items():
                    h5.attrs[f"{sec}:{k}"] = v
            h5.attrs["setup:software version"] = \
                "ShapeIn 2.2.2.4 | dclab 0.44.0"
            events = h5.create_group("events")
            for f in ("deform", "area_um"):
                _create(events, f, ev[f], "contiguous")
            _create(events, "frame", ev["frame"].astype(np.uint64),
                    "contiguous")
            # stored low-quality time: differs from frame / frame rate
            fps = h5.attrs["imaging:frame rate"]
            _create(events, "time",
                    np.round((ev["frame"] - ev["frame"][0]) / fps, 2) + 5.0,
                    layout)
        before = sha(src)
        o = d / "out.rtdc"
        getattr(cli, task)(path_in=src, path_out=o)
        if sha(src) != before:
            out.append(violation(where, "input-modified", case, "", tags))
        with dclab.new_dataset(src) as di, dclab.new_dataset(o) as do:
            for f in ("deform", "area_um", "frame", "time"):
                a = np.asarray(di[f][:], float)
                if f not in do:
                    out.append(violation(where, "feature-missing", case, f,
                                         dict(tags, feat=f)))
                    continue
                b = np.asarray(do[f][:], float)
                if a.shape != b.shape or not np.allclose(
                        a, b, rtol=1e-12, atol=0, equal_nan=True):
                    out.append(violation(
                        where, "wrong-data", case,
                        f"{f} ({layout}): input read through dclab gives "
                        f"{a[:4]}, the {task} output {b[:4]}",
                        dict(tags, feat=f, kind="scalar")))
    except BaseException as e:
        out.append(violation(where, "exception", case,
                             f"{type(e).__name__}: {e}",
                             dict(tags, exc=type(e).__name__)))
    finally:
        shutil.rmtree(d, ignore_errors=True)
    return out, 1


def _basin_only_case(args):
    """A file that stores no feature of its own (or only non-scalar ones)
    and gets everything through a basin: its copies keep the basin
    definitions, logs and metadata."""
    task, own, seed, scratch = args
    import dclab
    from dclab import cli
    from dclab.rtdc_dataset.writer import RTDCWriter
    d = scratch / f"c08_bo_{task}_{own}_{os.getpid()}"
    if d.exists():
        shutil.rmtree(d)
    d.mkdir()
    out = []
    case = {"kind": "basin-only", "task": task, "own": own, "seed": seed}
    where = f"dclab.cli.task_{task}:{task}"
    tags = {"task": task, "basin_only": True}
    try:
        ev = gen.make_events(N, seed=seed, special=False,
                             feats=["deform", "area_um", "image",
                                    "index_online"])
        origin = d / "origin.rtdc"
        gen.write_rtdc(origin, ev, meta=gen.complete_meta(N, fl=False))
        src = d / "in.rtdc"
        with RTDCWriter(src, mode="reset") as hw:
            hw.store_metadata(gen.complete_meta(N, fl=False))
            if own == "image":
                hw.store_feature("image", ev["image"])
            hw.store_basin("vf-origin", "file", "hdf5", [str(origin)])
            hw.store_log("vf-log", ["a line", "another"])
        before = sha(src)
        o = d / "out.rtdc"
        getattr(cli, task)(path_in=src, path_out=o)
        if sha(src) != before:
            out.append(violation(where, "input-modified", case, "", tags))
        out += compare_h5(src, o, case, tags, where,
                          scalar_only=(task == "condense"))
        # through dclab (a file without an events group cannot be opened)
        with h5py.File(o, "r") as h5:
            openable = "events" in h5 or task != "repack"
        if openable:
            try:
                with dclab.new_dataset(o) as do:
                    for f in ("deform", "area_um"):
                        if f not in do or not gen.arrays_equal(do[f][:],
                                                               ev[f]):
                            out.append(violation(
                                where, "feature-missing", case,
                                f"{f} (provided by the basin of the input) "
                                f"is not available from the {task} output",
                                dict(tags, feat=f)))
            except BaseException as e:
                if own == "image":
                    out.append(violation(
                        where, "exception", case,
                        f"output not loadable: {type(e).__name__}: {e}",
                        dict(tags, exc=type(e).__name__)))
    except BaseException as e:
        out.append(violation(where, "exception", case,
                             f"{type(e).__name__}: {e}",
                             dict(tags, exc=type(e).__name__)))
    finally:
        shutil.rmtree(d, ignore_errors=True)
    return out, 1


def _collision_case(args):
    """The input is never modified -- also when the output path names the
    input itself (in whatever spelling): the task may refuse, the input
    stays."""
    task, how, seed, scratch = args
    from dclab import cli
    d = scratch / f"c08_col_{task}_{how}_{os.getpid()}"
    if d.exists():
        shutil.rmtree(d)
    (d / "sub").mkdir(parents=True)
    out = []
    case = {"kind": "collision", "task": task, "how": how, "seed": seed}
    where = f"dclab.cli.task_{task}:{task}"
    here = os.getcwd()
    try:
        src = build_file(d / "in.rtdc", 1, seed, d)
        before = sha(src)
        given = {"same": src, "stem": src.with_suffix(""),
                 "dotdot": d / "sub" / ".." / src.name,
                 "relative": src.name,
                 "stem-dotdot": d / "sub" / ".." / src.stem}[how]
        if how == "relative":
            os.chdir(d)
        try:
            getattr(cli, task)(path_in=src, path_out=given)
            status = "returned normally"
        except BaseException as e:
            status = f"{type(e).__name__}: {str(e)[:100]}"
        finally:
            os.chdir(here)
        if not src.exists() or sha(src) != before:
            out.append(violation(
                where, "input-modified", case,
                f"{task} with output path '{given}' ({how}): the input is "
                f"{'gone' if not src.exists() else 'changed'} ({status})",
                {"task": task, "collision": True}))
    finally:
        os.chdir(here)
        shutil.rmtree(d, ignore_errors=True)
    return out, 1


def run(ctx):
    scratch = ctx.scratch
    variants = range(0, len(LAYOUTS), 1)
    items = []
    for v in variants:
        items.append(("compress", {}, v, ctx.seed, scratch))
        for sl, sb in itertools.product((False, True), repeat=2):
            items.append(("repack", {"strip_logs": sl, "strip_basins": sb},
                          v, ctx.seed, scratch))
        for anc, bas in itertools.product((True, False), repeat=2):
            items.append(("condense", {"store_ancillary_features": anc,
                                       "store_basin_features": bas},
                          v, ctx.seed, scratch))
    for v in range(100, 106 if ctx.thorough else 103):
        items.append(("compress", {}, v, ctx.seed, scratch))
        items.append(("repack", {"strip_logs": False, "strip_basins": False},
                      v, ctx.seed, scratch))
        items.append(("condense", {"store_ancillary_features": False,
                                   "store_basin_features": True},
                      v, ctx.seed, scratch))
    names = ["fmt-tdms_minimal_2016.zip", "fmt-tdms_fl-image_2016.zip",
             "fmt-tdms_2fl-no-image_2017.zip"]
    if ctx.thorough:
        names += ["fmt-tdms_fl_2015.zip",
                  "fmt-tdms_shapein-2.0.1-no-image_2017.zip",
                  "fmt-tdms_fl-image-bright_2017.zip",
                  "fmt-tdms_fl-image-large-fov_2017.zip"]
    titems = [(n, c, scratch) for n in names for c in (False, True)]
    viols = []
    nontriv = 0
    compared = 0
    citems = [(t, how, ctx.seed, scratch)
              for t in ("compress", "repack", "condense")
              for how in ("same", "stem", "dotdot", "relative",
                          "stem-dotdot")]
    ditems = [(t, lay, ctx.seed, scratch)
              for t in ("compress", "repack", "condense")
              for lay in ("contiguous", "chunked", "gzip", "zstd1", "zstd5",
                          "zstd9-big")]
    for vs, nc in par.pmap(_task_case, items) + par.pmap(
            _tdms_case, titems) + par.pmap(_collision_case, citems) \
            + par.pmap(_defective_case, ditems) \
            + par.pmap(_basin_only_case, [
                (t, own, ctx.seed, scratch)
                for t in ("compress", "repack", "condense")
                for own in ("none", "image")]):
        viols.extend(vs)
        nontriv += nc > 0
        compared += nc
    ncells = len(LAYOUTS) * 5 + 4 + 4
    cov = {"evaluations": len(items) + len(titems) + len(citems)
           + len(ditems),
           "defective_feature_cases": len(ditems),
           "collision_cases": len(citems),
           "distinct_nontrivial": nontriv,
           "datasets_compared": compared,
           "layout_kind_cells_per_file": ncells,
           "file_variants": len(list(variants)),
           "rule": "one case = (task, options, file variant); each file "
                   "variant rotates the assignment of 13 storage layouts to "
                   "12 scalar features, 3 image-like features, 3 traces, 6 "
                   "contour entries, 15 logs (fixed/variable length, empty), "
                   "4 tables (with attributes) and basin definitions; a "
                   "case is non-trivial when the task completed and at "
                   "least one dataset / feature of the output was compared "
                   "with the input (counted)",
           "tdms_cases": len(titems),
           "samples": [{"task": i[0], "opts": i[1], "variant": i[2]}
                       for i in (items[0], items[5], items[-1])],
           "exhaustive": True}
    # one large input (30000 events) through this property's entry points
    from .. import big
    viols = list(viols) + big.violations("C08", ctx.scratch)
    cov["big_input_events"] = big.N
    return {"level": LEVEL, "coverage": cov, "violations": viols,
            "assumptions": [
                "zero-length datasets are equivalent to absent ones",
                "variable-length string logs may be stored as fixed-length "
                "strings (decoded text compared)",
                "'setup:software version' may get a dclab suffix"]}


def replay(case, ctx):
    if case.get("kind") == "big":
        from .. import big
        return big.violations("C08", ctx.scratch)
    if case["kind"] == "basin-only":
        return _basin_only_case((case["task"], case["own"], case["seed"],
                                 ctx.scratch))[0]
    if case["kind"] == "defective":
        return _defective_case((case["task"], case["layout"], case["seed"],
                                ctx.scratch))[0]
    if case["kind"] == "collision":
        return _collision_case((case["task"], case["how"], case["seed"],
                                ctx.scratch))[0]
    if case["kind"] == "tdms":
        return _tdms_case((case["name"], case["compute"], ctx.scratch))[0]
    return _task_case((case["task"], case["opts"], case["variant"],
                       case["seed"], ctx.scratch))[0]
