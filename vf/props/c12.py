"""C12 -- statistics and density estimates use exactly the filtered events.

E3: all 2^N filter masks on an N-event dataset with *poison* (huge, NaN, inf,
negative) on the excluded events x every analysis entry point.  Oracle:
bit-equality with the same call on a dataset holding only the selected
events, plus reference estimators written against their definitions.
"""
import itertools
import os

import numpy as np

from .. import par
from ..runner import violation

PROPERTY = "C12"
LEVEL = "exploration"


def base_data(n, seed):
    rs = np.random.RandomState(100 + seed)
    x = np.round(rs.uniform(20, 200, n), 3)
    y = np.round(rs.uniform(0.01, 0.2, n), 5)
    # heavy ties
    if n >= 6:
        x[3] = x[1]
        y[4] = y[2]
    return x, y


POISON = [(1e12, 1e9), (np.nan, 0.05), (50.0, np.inf), (-5.0, -1.0),
          (np.inf, np.nan), (1e-300, 1e300), (0.0, 0.0), (7e7, -np.inf)]


class Raised:
    """Outcome of a call that raised: compared by exception type."""

    def __init__(self, e):
        self.name = type(e).__name__

    def __repr__(self):
        return f"<raised {self.name}>"


def call(f, *a, **kw):
    try:
        return f(*a, **kw)
    except Exception as e:
        return Raised(e)


def eq(a, b):
    if isinstance(a, Raised) or isinstance(b, Raised):
        return isinstance(a, Raised) and isinstance(b, Raised) and \
            a.name == b.name
    if isinstance(a, tuple) and isinstance(b, tuple):
        return len(a) == len(b) and all(eq(u, w) for u, w in zip(a, b))
    a = np.asarray(a, dtype=float)
    b = np.asarray(b, dtype=float)
    return a.shape == b.shape and np.array_equal(a, b, equal_nan=True)


def _new(x, y):
    import dclab
    ds = dclab.new_dataset({"area_um": np.array(x), "deform": np.array(y)})
    ds.config["setup"]["flow rate"] = 0.04
    return ds


def ref_kde(kind, xs, ys, px, py):
    """Reference estimators written against their definitions (valid events
    only, already in the chosen scale)."""
    from scipy.stats import gaussian_kde, skew
    if kind == "gauss":
        return gaussian_kde(np.vstack([xs, ys]))(np.vstack([px, py]))
    if kind == "multivariate":
        def doane(a):
            n = a.size
            g1 = skew(a)
            sg = np.sqrt(6 * (n - 2) / ((n + 1) * (n + 3)))
            k = 1 + np.log2(n) + np.log2(1 + np.abs(g1) / sg)
            return (a.max() - a.min()) / k
        hx, hy = doane(xs) / 2, doane(ys) / 2
        out = np.zeros(len(px))
        for i in range(len(px)):
            kx = np.exp(-0.5 * ((px[i] - xs) / hx) ** 2) / (
                hx * np.sqrt(2 * np.pi))
            ky = np.exp(-0.5 * ((py[i] - ys) / hy) ** 2) / (
                hy * np.sqrt(2 * np.pi))
            out[i] = np.mean(kx * ky)
        return out
    raise ValueError(kind)


def _mask_case(args):
    n, lo, hi, seed = args
    from dclab import statistics
    from dclab import kde_contours
    out = []
    cnt = 0
    marks = []      # (evaluations so far, mask is non-trivial)
    x0, y0 = base_data(n, seed)
    for bits in range(lo, hi):
        mask = np.array([(bits >> i) & 1 for i in range(n)], bool)
        marks.append((cnt, 0 < int(mask.sum()) < n))
        x, y = x0.copy(), y0.copy()
        for i in np.flatnonzero(~mask):
            x[i], y[i] = POISON[i % len(POISON)]
        ds = _new(x, y)
        ds.filter.manual[:] = mask
        ds.apply_filter()
        sel = np.flatnonzero(mask)
        ref = _new(x[sel], y[sel]) if len(sel) else None
        case = {"kind": "mask", "n": n, "seed": seed,
                "mask": mask.astype(int).tolist()}
        nsel = int(mask.sum())
        tags0 = {"nsel": min(nsel, 3)}

        def bad(where, symptom, detail, **t):
            out.append(violation(where, symptom, case, detail,
                                 dict(tags0, **t)))
        # ---- statistics ----
        cnt += 1
        try:
            h, v = statistics.get_statistics(ds, features=["area_um",
                                                           "deform"])
            d = dict(zip(h, v))
            if d["Events"] != nsel or not np.isclose(d["%-gated"],
                                                     100.0 * nsel / n):
                bad("dclab.statistics:get_statistics", "wrong-statistic",
                    f"Events={d['Events']} %-gated={d['%-gated']} for "
                    f"{nsel}/{n}", stat="Events")
            if ref is not None:
                h2, v2 = statistics.get_statistics(ref, features=[
                    "area_um", "deform"])
                d2 = dict(zip(h2, v2))
                for k in d:
                    if k in ("Events", "%-gated"):
                        continue
                    if not eq(d[k], d2[k]):
                        bad("dclab.statistics:get_statistics",
                            "excluded-events-influence", f"{k}: filtered "
                            f"{d[k]} vs selected-only {d2[k]}", stat=k.split(
                                " ")[0])
                # definitions on the finite selected values
                for feat, arr in (("Area", x[sel]), ("Deformation", y[sel])):
                    fin = arr[np.isfinite(arr)]
                    for nm, fn in (("Mean", np.mean), ("Median", np.median),
                                   ("SD", np.std)):
                        key = [kk for kk in d if kk.startswith(nm + " ")
                               and feat in kk]
                        if key and len(fin):
                            if not np.isclose(d[key[0]], fn(fin), rtol=1e-12,
                                              atol=0, equal_nan=True):
                                bad("dclab.statistics:get_statistics",
                                    "wrong-statistic", f"{key[0]}="
                                    f"{d[key[0]]} vs {fn(fin)}", stat=nm)
        except BaseException as e:
            bad("dclab.statistics:get_statistics", "exception",
                f"{type(e).__name__}: {e}", exc=type(e).__name__)
        if ref is None:
            continue
        # ---- KDE scatter / explicit positions / contour ----
        px = np.array([30.0, 90.0, 150.0])
        py = np.array([0.02, 0.08, 0.15])
        for kde_type in ("histogram", "gauss", "multivariate", "none"):
            for scale in ("linear", "log", "linear/log", "log/linear"):
                xsc, ysc = (scale.split("/") if "/" in scale
                            else (scale, scale))
                if "/" in scale and kde_type == "multivariate" \
                        and bits % 3:
                    continue       # mixed scales: every third mask
                cnt += 1
                t = {"kde": kde_type, "scale": scale}
                try:
                    a = call(ds.get_kde_scatter, kde_type=kde_type,
                             xscale=xsc, yscale=ysc)
                    b = call(ref.get_kde_scatter, kde_type=kde_type,
                             xscale=xsc, yscale=ysc)
                    if not eq(a, b):
                        bad("dclab.rtdc_dataset.core:RTDCBase."
                            "get_kde_scatter", "excluded-events-influence",
                            f"{kde_type}/{scale}: {a} vs {b}", **t)
                    a2 = call(ds.get_kde_scatter, kde_type=kde_type,
                              xscale=xsc, yscale=ysc, positions=(px, py))
                    b2 = call(ref.get_kde_scatter, kde_type=kde_type,
                              xscale=xsc, yscale=ysc,
                              positions=(px, py))
                    if not eq(a2, b2):
                        bad("dclab.rtdc_dataset.core:RTDCBase."
                            "get_kde_scatter", "excluded-events-influence",
                            f"{kde_type}/{scale} positions: {a2} vs {b2}",
                            **t)
                    # reference estimator on the valid selected events
                    xs, ys = x[sel], y[sel]
                    ok = np.isfinite(xs) & np.isfinite(ys)
                    xs, ys = xs[ok], ys[ok]
                    qx, qy = px, py
                    if xsc == "log":
                        xs, qx = np.log(xs), np.log(px)
                    if ysc == "log":
                        ys, qy = np.log(ys), np.log(py)
                    if kde_type in ("gauss", "multivariate") and len(
                            xs) >= 4 and np.ptp(xs) > 0 and np.ptp(ys) > 0 \
                            and not isinstance(a2, Raised):
                        try:
                            r = ref_kde(kde_type, xs, ys, qx, qy)
                        except np.linalg.LinAlgError:
                            r = None
                        if r is not None and not np.allclose(
                                a2, r, rtol=1e-9, atol=1e-300,
                                equal_nan=True):
                            bad("dclab.kde_methods:kde_" + kde_type,
                                "differs-from-reference-estimator",
                                f"{scale}: {a2} vs reference {r}", **t)
                    if kde_type == "histogram" or bits % 5 == 0:
                        ca = call(ds.get_kde_contour, kde_type=kde_type,
                                  xscale=xsc, yscale=ysc)
                        cb = call(ref.get_kde_contour, kde_type=kde_type,
                                  xscale=xsc, yscale=ysc)
                        if not eq(ca, cb):
                            bad("dclab.rtdc_dataset.core:RTDCBase."
                                "get_kde_contour",
                                "excluded-events-influence",
                                f"{kde_type}/{scale} contour grid", **t)
                        if kde_type == "histogram" and scale == "linear" \
                                and len(xs) >= 4 and not isinstance(
                                    ca, Raised) and ca[2].size:
                            for q in (0.1, 0.5, 0.9):
                                lev = kde_contours.get_quantile_levels(
                                    density=ca[2], x=ca[0], y=ca[1],
                                    xp=xs, yp=ys, q=q, normalize=False)
                                la = kde_contours.get_quantile_levels(
                                    density=ca[2], x=ca[0], y=ca[1],
                                    xp=x[mask], yp=y[mask], q=q,
                                    normalize=False)
                                if not eq(lev, la):
                                    bad("dclab.kde_contours:"
                                        "get_quantile_levels",
                                        "invalid-events-influence",
                                        f"q={q}: {la} vs {lev}", q=q)
                except BaseException as e:
                    bad("dclab.rtdc_dataset.core:RTDCBase.get_kde_scatter",
                        "exception", f"{kde_type}/{scale}: "
                        f"{type(e).__name__}: {e}", exc=type(e).__name__,
                        **t)
        # ---- downsampled scatter ----
        for k in (0, 2, nsel):
            cnt += 1
            try:
                a = call(ds.get_downsampled_scatter, downsample=k)
                b = call(ref.get_downsampled_scatter, downsample=k)
                if not eq(a, b):
                    bad("dclab.rtdc_dataset.core:RTDCBase."
                        "get_downsampled_scatter",
                        "excluded-events-influence", f"downsample={k}",
                        k=k)
            except BaseException as e:
                if not (isinstance(e, IndexError)):
                    bad("dclab.rtdc_dataset.core:RTDCBase."
                        "get_downsampled_scatter", "exception",
                        f"downsample={k}: {type(e).__name__}: {e}",
                        exc=type(e).__name__)
        # ---- filtering disabled: all events are used ----
        if bits % 7 == 0 or bits % 5 == 0:
            ds.config["filtering"]["enable filters"] = False
            if bits % 7 == 0:
                # (bits % 5: the switch alone must do, statistics look at
                # the configuration, not only at the last applied filter)
                ds.apply_filter()
            full = _new(x, y)
            h, v = statistics.get_statistics(ds, features=["deform"])
            h2, v2 = statistics.get_statistics(full, features=["deform"])
            # "Events" / "%-gated" are defined on the applied filter array
            # itself; without apply_filter() only the feature statistics
            # are constrained
            skip = () if bits % 7 == 0 else ("Events", "%-gated")
            if not all(eq(p, q) for hh, p, q in zip(h, v, v2)
                       if hh not in skip):
                bad("dclab.statistics:get_statistics",
                    "filter-disabled-not-all-events", f"{v} vs {v2}")
    marks.append((cnt, False))
    nt = sum(marks[k + 1][0] - marks[k][0] for k in range(len(marks) - 1)
             if marks[k][1])
    return cnt, out, nt


def _history_case(args):
    """A long-lived dataset whose filter changes between calls: every entry
    point under mask A, then under mask B (and with filters disabled), must
    equal a fresh dataset of the events selected by B."""
    lo, hi, seed = args
    from dclab import statistics
    out = []
    cnt = 0
    n = 10
    x, y = base_data(n, seed + 5)
    fam = [np.ones(n, bool), np.arange(n) % 2 == 0, np.arange(n) < 6,
           np.arange(n) >= 4, np.array([1, 1, 0, 1, 0, 1, 1, 1, 0, 1], bool),
           np.arange(n) % 3 != 0]
    pairs = list(itertools.permutations(range(len(fam)), 2))
    pairs += [(a, "off") for a in range(len(fam))]

    def calls(ds, kws=None):
        """kws: one keyword dictionary per KDE type that the caller keeps
        and passes again in later calls (it must come back unchanged)."""
        res = {}
        h, v = statistics.get_statistics(ds, features=["area_um", "deform"])
        res["stats"] = tuple(v)
        for kt in ("histogram", "gauss", "multivariate", "none"):
            res[f"scatter-{kt}"] = call(ds.get_kde_scatter, kde_type=kt)
            res[f"contour-{kt}"] = call(ds.get_kde_contour, kde_type=kt)
            if kws is not None:
                kw = kws.setdefault(kt, {})
                res[f"scatter-{kt}-kw"] = call(
                    ds.get_kde_scatter, kde_type=kt, kde_kwargs=kw)
                res[f"contour-{kt}-kw"] = call(
                    ds.get_kde_contour, kde_type=kt, kde_kwargs=kw)
                res[f"kwargs-{kt}"] = tuple(sorted(kw))
            else:
                res[f"scatter-{kt}-kw"] = res[f"scatter-{kt}"]
                res[f"contour-{kt}-kw"] = res[f"contour-{kt}"]
                res[f"kwargs-{kt}"] = ()
        res["contour-log"] = call(ds.get_kde_contour, xscale="log",
                                  yscale="log")
        res["contour-acc"] = call(ds.get_kde_contour, xacc=7.0, yacc=0.01)
        res["down"] = call(ds.get_downsampled_scatter, downsample=3)
        return res
    for a, b in pairs[lo:hi]:
        cnt += 1
        ds = _new(x, y)
        ds.filter.manual[:] = fam[a]
        ds.apply_filter()
        kws = {}
        calls(ds, kws)
        if b == "off":
            ds.config["filtering"]["enable filters"] = False
            sel = np.arange(n)
        else:
            ds.filter.manual[:] = fam[b]
            sel = np.flatnonzero(fam[b])
        ds.apply_filter()
        got = calls(ds, kws)
        ref = calls(_new(x[sel], y[sel]))
        for k in got:
            if k == "stats":
                # Events / %-gated refer to the filter, compare the rest
                ok = all(eq(p, q) for p, q in zip(got[k][2:], ref[k][2:]))
            elif k.startswith("kwargs"):
                ok = got[k] == ref[k]       # the caller's dict stays empty
            else:
                ok = eq(got[k], ref[k])
            if not ok:
                out.append(violation(
                    "dclab.rtdc_dataset.core:RTDCBase", "depends-on-"
                    "earlier-filter", {"kind": "history", "a": a,
                                       "b": b, "seed": seed},
                    f"{k}: after mask {a} then {b} the result differs "
                    f"from a fresh dataset of the selected events",
                    {"entry": k.split("-")[0]}))
    return cnt, out


def _invalid_switch_case(args):
    """NaN / inf among the *selected* events, with the "remove invalid
    events" switch set but the filter not (re-)applied, or a feature with
    invalid values attached after the filter was applied: statistics are
    those of the finite selected values."""
    seed, = args
    import dclab
    from dclab import statistics
    out = []
    cnt = 0
    n = 10
    x, y = base_data(n, seed + 9)
    y = y.copy()
    x = x.copy()
    y[2], y[6], x[4] = np.nan, np.inf, np.nan
    # the partner values of the invalid ones are unremarkable (never the
    # extremes that would fix the extent of a grid)
    x[2] = x[6] = np.median(x[np.isfinite(x)])
    y[4] = np.median(y[np.isfinite(y)])
    fam = [np.ones(n, bool), np.arange(n) % 2 == 0, np.arange(n) < 7]

    def stats(ds, feats):
        h, v = statistics.get_statistics(ds, features=feats)
        return dict(zip(h, v))
    for mi, m in enumerate(fam):
        for how in ("switch-not-applied", "switch-applied",
                    "temporary-after-apply"):
            cnt += 1
            case = {"kind": "invalid-switch", "seed": seed, "mask": mi,
                    "how": how}
            ds = _new(x, y)
            ds.filter.manual[:] = m
            feats = ["area_um", "deform"]
            if how == "switch-applied":
                ds.config["filtering"]["remove invalid events"] = True
                ds.apply_filter()
            else:
                ds.apply_filter()
                ds.config["filtering"]["remove invalid events"] = True
            if how == "temporary-after-apply":
                from dclab.definitions import feat_logic
                if not feat_logic.feature_exists("vf_c12_tmp"):
                    dclab.register_temporary_feature("vf_c12_tmp")
                tmp = np.arange(n) * 1.5
                tmp[[1, 4]] = np.nan
                dclab.set_temporary_feature(ds, "vf_c12_tmp", tmp)
                feats = feats + ["vf_c12_tmp"]
            sel = np.array(ds.filter.all)
            # contours pair x and y per event: invalid values in one of the
            # two features remove the event, not a value
            fin = sel & np.isfinite(x) & np.isfinite(y)
            refc = _new(x[fin], y[fin])
            for kt in ("histogram", "gauss", "multivariate"):
                for scale in ("linear", "log"):
                    # (explicit accuracies: how dclab derives a default
                    # grid spacing from the data is not the subject here)
                    acc = dict(xacc=7.0, yacc=0.01) if scale == "linear" \
                        else dict(xacc=0.05, yacc=0.05)
                    ca = call(ds.get_kde_contour, kde_type=kt, xscale=scale,
                              yscale=scale, **acc)
                    cb = call(refc.get_kde_contour, kde_type=kt,
                              xscale=scale, yscale=scale, **acc)
                    okc = eq(ca, cb) if isinstance(ca, Raised) or isinstance(
                        cb, Raised) else all(
                        np.asarray(u).shape == np.asarray(w).shape
                        and np.allclose(u, w, rtol=1e-9, atol=0,
                                        equal_nan=True)
                        for u, w in zip(ca, cb))
                    if not okc:
                        out.append(violation(
                            "dclab.rtdc_dataset.core:RTDCBase."
                            "get_kde_contour", "invalid-events-influence",
                            case, f"{how}: {kt}/{scale} contour with NaN/inf "
                            f"among the selected events differs from the "
                            f"contour of the finite selected events "
                            f"({ca if isinstance(ca, Raised) else ''})",
                            {"kde": kt, "how": how}))
            try:
                got = stats(ds, feats)
            except BaseException as e:
                out.append(violation(
                    "dclab.statistics:get_statistics", "exception", case,
                    f"{type(e).__name__}: {e}", {"exc": type(e).__name__}))
                continue
            for f in feats:
                arr = np.asarray(ds[f], float)[sel]
                arr = arr[np.isfinite(arr)]
                if not len(arr):
                    continue
                for name, fn in (("Mean", np.mean), ("Median", np.median),
                                 ("SD", np.std)):
                    key = [k for k in got if k.startswith(name + " ")
                           and dclab.dfn.get_feature_label(f) in k]
                    if not key:
                        continue
                    if not np.isclose(got[key[0]], fn(arr), rtol=1e-9,
                                      atol=0):
                        out.append(violation(
                            "dclab.statistics:get_statistics",
                            "wrong-statistic", case,
                            f"{how}: {key[0]} = {got[key[0]]!r}, the finite "
                            f"selected values give {fn(arr)!r}",
                            {"stat": name, "how": how}))
    return cnt, out


def _contour_mesh_case(args):
    """The contour density is the estimator of the selected events in the
    chosen scales, evaluated on a mesh that spans those events: compared with
    the scatter route at the mesh points, for every combination of x and y
    scale (the two axes are scaled independently)."""
    seed, = args
    out = []
    cnt = 0
    rs = np.random.RandomState(seed + 31)
    n = 40
    x = np.round(rs.uniform(30, 200, n), 2)
    y = np.round(rs.uniform(0.01, 0.2, n), 4)
    masks = {"all": np.ones(n, bool), "two-thirds": np.arange(n) % 3 != 0,
             "low-half": y < np.median(y), "six": np.arange(n) < 6}
    for mname, m in masks.items():
        ds = _new(x, y)
        ds.filter.manual[:] = m
        ds.apply_filter()
        for kt in ("histogram", "gauss", "multivariate"):
            for xsc in ("linear", "log"):
                for ysc in ("linear", "log"):
                    cnt += 1
                    case = {"kind": "contour-mesh", "seed": seed, "kde": kt,
                            "mask": mname, "xscale": xsc, "yscale": ysc}
                    tags = {"kde": kt, "mixed": xsc != ysc}
                    acc = dict(xacc=7.0 if xsc == "linear" else 0.05,
                               yacc=0.01 if ysc == "linear" else 0.05)
                    c = call(ds.get_kde_contour, kde_type=kt, xscale=xsc,
                             yscale=ysc, **acc)
                    if isinstance(c, Raised):
                        out.append(violation(
                            "dclab.rtdc_dataset.core:RTDCBase."
                            "get_kde_contour", "exception", case, repr(c),
                            dict(tags, exc=c.name)))
                        continue
                    xm, ym, dens = c
                    sc = call(ds.get_kde_scatter, kde_type=kt, xscale=xsc,
                              yscale=ysc, positions=(xm.ravel(), ym.ravel()))
                    if isinstance(sc, Raised) or not np.allclose(
                            sc, np.asarray(dens).ravel(), rtol=1e-9,
                            atol=1e-300, equal_nan=True):
                        out.append(violation(
                            "dclab.rtdc_dataset.core:RTDCBase."
                            "get_kde_contour", "contour-differs-from-scatter",
                            case, f"{kt} x:{xsc} y:{ysc} mask {mname}: the "
                            f"contour density differs from get_kde_scatter "
                            f"at the mesh points", tags))
                    for nm, mesh, data in (("x", xm, x[m]), ("y", ym, y[m])):
                        if mesh.min() > data.min() * (1 + 1e-9) or \
                                mesh.max() < data.max() * (1 - 1e-9):
                            out.append(violation(
                                "dclab.rtdc_dataset.core:RTDCBase."
                                "get_kde_contour", "mesh-does-not-span",
                                case, f"{kt} x:{xsc} y:{ysc} mask {mname}: "
                                f"{nm} mesh [{mesh.min()}, {mesh.max()}] vs "
                                f"selected events [{data.min()}, "
                                f"{data.max()}]", dict(tags, axis=nm)))
    return cnt, out


def _int_axis_case(args):
    """An integer-typed feature on an axis (frame, index) and integer
    positions: the densities are those for the same numbers as floats."""
    seed, = args
    import dclab
    out = []
    cnt = 0
    rs = np.random.RandomState(seed + 21)
    n = 40
    fr = np.cumsum(rs.randint(1, 5, n)).astype(np.int64)
    y = np.round(rs.uniform(0.01, 0.2, n), 4)
    di = dclab.new_dataset({"frame": fr, "deform": y,
                            "area_um": fr.astype(float)})
    m = np.arange(n) % 4 != 0
    di.filter.manual[:] = m
    di.apply_filter()
    ipos = (np.array([3, 20, 50, 90], dtype=np.int64),
            np.array([0.05, 0.1, 0.15, 0.02]))
    for kt in ("histogram", "gauss", "multivariate"):
        for yscale in ("linear", "log"):
            for pos in (None, ipos):
                cnt += 1
                case = {"kind": "int-axis", "seed": seed, "kde": kt,
                        "yscale": yscale, "positions": pos is not None}
                kw = dict(kde_type=kt, yscale=yscale)
                a = call(di.get_kde_scatter, xax="frame", yax="deform",
                         positions=pos, **kw)
                fpos = None if pos is None else (pos[0].astype(float),
                                                 pos[1])
                b = call(di.get_kde_scatter, xax="area_um", yax="deform",
                         positions=fpos, **kw)
                ok = not isinstance(a, Raised) and not isinstance(b, Raised) \
                    and np.asarray(a).shape == np.asarray(b).shape \
                    and np.allclose(np.asarray(a, float),
                                    np.asarray(b, float), rtol=1e-9,
                                    atol=0, equal_nan=True)
                if not ok:
                    out.append(violation(
                        "dclab.kde_methods:kde_" + kt, "depends-on-dtype",
                        case, f"{kt}/{yscale}: integer x axis gives "
                        f"{np.asarray(a)[:5]!r}, the same numbers as "
                        f"floats {np.asarray(b)[:5]!r}", {"kde": kt}))
    return cnt, out


def _bigtsv_case(args):
    """tsv export of a large filtered dataset (shared with C02)."""
    from .c02 import bigtsv_violations
    vs = bigtsv_violations(args[0])
    for v in vs:
        v["case"] = dict(v["case"], kind="bigtsv")
    return 10, vs


NBIGKDE = 4000


def _bigkde_case(args):
    """One large sample per estimator (4000 events, 800 of them excluded and
    poisoned): scatter densities at the 3200 selected events (more than
    2**23 event x position pairs), in linear and log scale, equal the
    reference estimator, the same call on a dataset of the selected events
    only, and the same positions asked for in batches of 400."""
    kt, = args
    out = []
    cnt = 0
    n = NBIGKDE
    k = np.arange(n)
    x0 = 60.0 + 25.0 * np.sin(k * 0.37) + (k % 41) * 0.9
    y0 = 0.02 + 0.015 * (1 + np.cos(k * 0.11)) + (k % 29) * 1e-3
    mask = (k % 5) != 2
    x, y = x0.copy(), y0.copy()
    for i in np.flatnonzero(~mask):
        x[i], y[i] = POISON[i % len(POISON)]
    ds = _new(x, y)
    ds.filter.manual[:] = mask
    ds.apply_filter()
    sub = _new(x0[mask], y0[mask])
    sub.apply_filter()
    W = "dclab.rtdc_dataset.core:RTDCBase.get_kde_scatter"
    for scale in ("linear", "log"):
        cnt += 1
        case = {"kind": "bigkde", "kde": kt, "scale": scale}
        tags = {"kde": kt, "scale": scale, "scope": "large-input"}
        try:
            kw = dict(xax="area_um", yax="deform", kde_type=kt,
                      xscale=scale, yscale=scale)
            got = np.asarray(ds.get_kde_scatter(**kw))
            alone = np.asarray(sub.get_kde_scatter(**kw))
            if not eq(got, alone):
                bad = np.flatnonzero(~np.isclose(got, alone, rtol=1e-12,
                                                 equal_nan=True))
                out.append(violation(
                    W, "depends-on-excluded-events", case,
                    f"{kt}/{scale}: {bad.size} of {got.size} densities "
                    f"differ from the dataset of the selected events "
                    f"(first at selected event {bad[:1].tolist()})", tags))
                continue
            xs, ys = x0[mask], y0[mask]
            if scale == "log":
                xs, ys = np.log(xs), np.log(ys)
            if kt in ("gauss", "multivariate"):
                ref = ref_kde(kt, xs, ys, xs, ys)
                if not np.allclose(got, ref, rtol=1e-8, atol=0):
                    bad = np.flatnonzero(~np.isclose(got, ref, rtol=1e-8,
                                                     atol=0))
                    out.append(violation(
                        W, "differs-from-reference-estimator", case,
                        f"{kt}/{scale}: {bad.size} of {got.size} densities "
                        f"differ from the reference estimator, first at "
                        f"selected event {bad[0]}: {got[bad[0]]!r} vs "
                        f"{ref[bad[0]]!r}", tags))
                    continue
            px, py = x0[mask], y0[mask]
            parts = [np.asarray(ds.get_kde_scatter(
                positions=(px[a:a + 400], py[a:a + 400]), **kw))
                for a in range(0, px.size, 400)]
            if not np.allclose(np.concatenate(parts), got, rtol=1e-10,
                               atol=0):
                out.append(violation(
                    W, "depends-on-batch", case,
                    f"{kt}/{scale}: the densities at the selected events "
                    f"asked for in batches of 400 differ from one call",
                    tags))
        except Exception as e:
            out.append(violation(W, "exception", case,
                                 f"{type(e).__name__}: {e}",
                                 dict(tags, exc=type(e).__name__)))
    return cnt, out


def _quantile_case(args):
    """The level reported for quantile q leaves the fraction q below it."""
    seed, = args
    import scipy.interpolate as spint
    from dclab import kde_contours
    out = []
    cnt = 0
    rs = np.random.RandomState(seed + 11)
    for n in (20, 200, 2000):
        x = rs.normal(100, 20, n)
        y = rs.normal(0.1, 0.02, n)
        ds = _new(x, y)
        for kde_type in ("histogram", "gauss"):
            xm, ym, dens = ds.get_kde_contour(kde_type=kde_type)
            for q in (0.05, 0.25, 0.5, 0.75, 0.95):
                cnt += 1
                lev = kde_contours.get_quantile_levels(
                    density=dens, x=xm, y=ym, xp=x, yp=y, q=q,
                    normalize=False)
                dp = spint.interpn((xm[:, 0], ym[0, :]), dens, (x, y),
                                   method="linear", bounds_error=False,
                                   fill_value=0)
                frac = np.mean(dp < lev)
                if abs(frac - q) > 1.0 / n + 1e-12:
                    out.append(violation(
                        "dclab.kde_contours:get_quantile_levels",
                        "wrong-quantile-level",
                        {"kind": "quantile", "seed": seed, "n": n, "q": q,
                         "kde": kde_type},
                        f"n={n} q={q}: fraction below level = {frac}",
                        {"kde": kde_type}))
                # invalid (NaN / +-inf) events among the positions must not
                # move the level
                xd = np.concatenate([x, [np.inf, 50.0, np.nan, -np.inf, 1.0]])
                yd = np.concatenate([y, [0.1, -np.inf, 0.1, np.nan, np.inf]])
                levd = kde_contours.get_quantile_levels(
                    density=dens, x=xm, y=ym, xp=xd, yp=yd, q=q,
                    normalize=False)
                if not np.isclose(levd, lev, rtol=1e-12, atol=0):
                    out.append(violation(
                        "dclab.kde_contours:get_quantile_levels",
                        "invalid-events-influence",
                        {"kind": "quantile", "seed": seed, "n": n, "q": q,
                         "kde": kde_type},
                        f"n={n} q={q}: level {levd} with five NaN/inf "
                        f"events appended, {lev} without",
                        {"kde": kde_type}))
    return cnt, out


def _positions_case(args):
    """Explicit scatter positions: every non-empty subset of a pool of five
    positions (so 1, 2, 3, 4 and 5 positions), handed over as a tuple of
    arrays, as a list of arrays and as one (2, k) array: the density at a
    position is the reference estimator's, and does not depend on how many
    other positions are asked for or on the container."""
    seed, = args
    out = []
    cnt = 0
    rs = np.random.RandomState(seed + 31)
    n = 40
    x = rs.normal(100, 20, n)
    y = np.abs(rs.normal(0.1, 0.03, n)) + 0.01
    mask = np.arange(n) % 4 != 3
    xf, yf = x.copy(), y.copy()
    for i in np.flatnonzero(~mask):
        xf[i], yf[i] = POISON[i % len(POISON)]
    ds = _new(xf, yf)
    ds.filter.manual[:] = mask
    ds.apply_filter()
    xs0, ys0 = x[mask], y[mask]
    pool_x = np.array([70.0, 95.0, 101.0, 120.0, 140.0])
    pool_y = np.array([0.06, 0.09, 0.11, 0.13, 0.17])
    W = "dclab.rtdc_dataset.core:RTDCBase.get_kde_scatter"
    for kt in ("histogram", "gauss", "multivariate"):
        for scale in ("linear", "log"):
            kw = dict(kde_type=kt, xscale=scale, yscale=scale)
            full = np.asarray(ds.get_kde_scatter(
                positions=(pool_x, pool_y), **kw))
            xs, ys, qx, qy = xs0, ys0, pool_x, pool_y
            if scale == "log":
                xs, ys, qx, qy = (np.log(v) for v in (xs, ys, qx, qy))
            want = ref_kde(kt, xs, ys, qx, qy) if kt != "histogram" \
                else full
            for bits in range(1, 32):
                idx = [i for i in range(5) if bits >> i & 1]
                px, py = pool_x[idx], pool_y[idx]
                # (the documented containers: a list / tuple of two 1-d
                # arrays, or one array of shape (2, k))
                for cname, pos in (("tuple", (px, py)),
                                   ("list", [px.copy(), py.copy()]),
                                   ("array", np.array([px, py]))):
                    cnt += 1
                    case = {"kind": "positions", "kde": kt, "scale": scale,
                            "subset": idx, "container": cname, "seed": seed}
                    try:
                        got = np.asarray(ds.get_kde_scatter(positions=pos,
                                                            **kw))
                    except Exception as e:
                        out.append(violation(
                            W, "exception", case,
                            f"{type(e).__name__}: {e}",
                            {"kde": kt, "npos": len(idx),
                             "container": cname,
                             "exc": type(e).__name__}))
                        continue
                    if got.shape != (len(idx),) or not np.allclose(
                            got, want[idx], rtol=1e-9, atol=1e-300):
                        out.append(violation(
                            W, "depends-on-batch", case,
                            f"{kt}/{scale}, positions {idx} as {cname}: "
                            f"{got} instead of {want[idx]}",
                            {"kde": kt, "npos": len(idx),
                             "container": cname}))
    return cnt, out


def _inside_any(px, py, polys):
    """Even-odd containment of points in the union of closed polylines
    (crossing number, counted over all polylines together)."""
    cross = np.zeros(len(px), int)
    for poly in polys:
        xs, ys = poly[:, 0], poly[:, 1]
        x2, y2 = np.roll(xs, -1), np.roll(ys, -1)
        for a, b, c, d in zip(xs, ys, x2, y2):
            if b == d:
                continue
            hit = ((b > py) != (d > py)) & (
                px < a + (py - b) * (c - a) / (d - b))
            cross += hit
    return cross % 2 == 1


def _contour_lines_case(args):
    """The contour lines drawn at the density level of a quantile
    (`find_contours_level`, closed at the border of the mesh) separate the
    events: an event whose interpolated density is clearly above the level
    lies inside the lines, one clearly below lies outside - for three
    estimators on a two-cluster sample with filtered-out poison events,
    linear and logarithmic y scale, three quantiles."""
    seed, = args
    import scipy.interpolate as spint
    from dclab import kde_contours
    out = []
    cnt = 0
    rs = np.random.RandomState(seed + 23)
    n = 300
    x = np.concatenate([rs.normal(80, 8, n // 2), rs.normal(130, 10, n // 2)])
    y = np.concatenate([rs.normal(0.05, 0.008, n // 2),
                        rs.normal(0.12, 0.015, n // 2)])
    mask = np.arange(n) % 6 != 1
    xf, yf = x.copy(), y.copy()
    for i in np.flatnonzero(~mask):
        xf[i], yf[i] = POISON[i % len(POISON)]
    ds = _new(xf, yf)
    ds.filter.manual[:] = mask
    ds.apply_filter()
    xs, ys = x[mask], y[mask]
    W = "dclab.kde_contours:find_contours_level"
    for kt in ("histogram", "gauss", "multivariate"):
        for yscale in ("linear", "log"):
            xm, ym, dens = ds.get_kde_contour(kde_type=kt, yscale=yscale)
            dp = spint.interpn((xm[:, 0], ym[0, :]), dens, (xs, ys),
                               method="linear", bounds_error=False,
                               fill_value=0)
            for q in (0.3, 0.5, 0.8):
                cnt += 1
                case = {"kind": "contour-lines", "kde": kt,
                        "yscale": yscale, "q": q, "seed": seed}
                tags = {"kde": kt, "yscale": yscale}
                try:
                    lev = kde_contours.get_quantile_levels(
                        density=dens, x=xm, y=ym, xp=xs, yp=ys, q=q,
                        normalize=True)
                    conts = kde_contours.find_contours_level(
                        dens, xm, ym, lev, closed=True)
                except Exception as e:
                    out.append(violation(W, "exception", case,
                                         f"{type(e).__name__}: {e}",
                                         dict(tags, exc=type(e).__name__)))
                    continue
                level = lev * dens.max()
                open_ = [c for c in conts
                         if not np.allclose(c[0], c[-1])]
                if open_:
                    out.append(violation(
                        W, "contour-not-closed", case,
                        f"{len(open_)} of {len(conts)} lines are open "
                        f"although closed=True", tags))
                    continue
                inside = _inside_any(xs, ys, [np.asarray(c) for c in conts])
                above = dp > level * 1.15
                below = dp < level * 0.85
                wrong = int((above & ~inside).sum() + (below & inside).sum())
                if wrong > 0.02 * len(xs):
                    out.append(violation(
                        W, "contour-lines-misplaced", case,
                        f"{kt}/{yscale} q={q}: {int((above & ~inside).sum())}"
                        f" of {int(above.sum())} events clearly above the "
                        f"level are outside the lines, "
                        f"{int((below & inside).sum())} of "
                        f"{int(below.sum())} clearly below are inside",
                        tags))
    return cnt, out


def run(ctx):
    n = 9 if ctx.quick else 10
    total = 2 ** n
    step = max(1, total // 32)
    items = [(n, lo, min(lo + step, total), ctx.seed)
             for lo in range(0, total, step)]
    if ctx.thorough:
        items += [(6, lo, min(lo + 4, 64), ctx.seed + 1)
                  for lo in range(0, 64, 4)]
    res = par.pmap(_mask_case, items)
    res += par.pmap(_quantile_case, [(ctx.seed,)])
    res += par.pmap(_contour_lines_case, [(ctx.seed,)])
    res += par.pmap(_positions_case, [(ctx.seed,)])
    res += par.pmap(_bigtsv_case, [(ctx.scratch,)])
    res += par.pmap(_bigkde_case, [(kt,) for kt in (
        "histogram", "gauss", "multivariate")])
    res += par.pmap(_invalid_switch_case, [(ctx.seed,)])
    res += par.pmap(_int_axis_case, [(ctx.seed,)])
    res += par.pmap(_contour_mesh_case, [(ctx.seed,)])
    res += par.pmap(_history_case, [(lo, lo + 3, ctx.seed)
                                    for lo in range(0, 36, 3)])
    viols = []
    cnt = 0
    nontriv = 0
    for r in res:
        cnt += r[0]
        viols.extend(r[1])
        nontriv += r[2] if len(r) > 2 else r[0]
    cov = {"evaluations": cnt, "distinct_nontrivial": nontriv,
           "masks": total,
           "rule": "all 2^N filter masks (N=9 quick / 10 thorough) on a "
                   "dataset whose excluded events carry poison values "
                   "(1e12, NaN, inf, negative, 1e300); per mask: all "
                   "statistics x 2 features, 3 KDE types x linear/log x "
                   "(event positions, explicit positions), contour grids, "
                   "quantile levels, downsampled scatter for 3 sizes, "
                   "filters disabled; non-trivial = evaluations under a mask that keeps at least one and excludes at least one event (counted); quantile and history cases count fully",
           "samples": [{"mask": [1, 0, 1, 1, 0, 1]},
                       {"kde": "multivariate", "scale": "log"},
                       {"quantile": 0.95, "n": 200}],
           "exhaustive": True}
    return {"level": LEVEL, "coverage": cov, "violations": viols,
            "assumptions": [
                "reference estimators (scipy gaussian_kde; product Gaussian "
                "kernel with Doane/2 bandwidth) compared to 1e-9 relative "
                "when at least 4 non-degenerate events are selected",
                "quantile definition: fraction below the level = q +/- 1/n"]}


def replay(case, ctx):
    if case["kind"] == "history":
        vs = []
        for lo in range(0, 36, 3):
            vs += _history_case((lo, lo + 3, case["seed"]))[1]
        return [v for v in vs if v["case"]["a"] == case["a"]
                and v["case"]["b"] == case["b"]]
    if case["kind"] == "contour-mesh":
        return [v for v in _contour_mesh_case((case["seed"],))[1]
                if v["case"] == case]
    if case["kind"] == "int-axis":
        return [v for v in _int_axis_case((case["seed"],))[1]
                if v["case"] == case]
    if case["kind"] == "invalid-switch":
        return [v for v in _invalid_switch_case((case["seed"],))[1]
                if v["case"] == case]
    if case["kind"] == "positions":
        return [v for v in _positions_case((case["seed"],))[1]
                if v["case"] == case]
    if case["kind"] == "contour-lines":
        return [v for v in _contour_lines_case((case["seed"],))[1]
                if v["case"] == case]
    if case["kind"] == "bigkde":
        return [v for v in _bigkde_case((case["kde"],))[1]
                if v["case"] == case]
    if case["kind"] == "bigtsv":
        return [v for v in _bigtsv_case((ctx.scratch,))[1]
                if v["case"] == case]
    if case["kind"] == "quantile":
        _, vs = _quantile_case((case["seed"],))
        return vs
    bits = sum(b << i for i, b in enumerate(case["mask"]))
    _, vs, _ = _mask_case((case["n"], bits, bits + 1, case["seed"]))
    return vs
