"""C07 -- basin-provided features equal the origin's data for the mapped events.

E1-style exhaustive exploration of export chains: states are files;
transitions are filtered exports with basins (from a file or from a hierarchy
child, with and without stored features).  All nested mask chains to a depth
bound are enumerated; plus all maps [m]->[3] written with store_basin (file
and internal basins), moved/removed origins, and stored-feature precedence.
Oracle: the generator's arrays at the composed map, for every access pattern.
"""
import itertools
import os
import shutil

import h5py
import numpy as np

from .. import gen, par
from ..runner import violation

PROPERTY = "C07"
LEVEL = "model_checking"
FB = "dclab.rtdc_dataset.feat_basin"
N0 = 5
FEATS = ["deform", "area_um", "image", "mask", "contour", "trace",
         gen.USER_FEAT]


def access_patterns(n):
    pats = [("int", i) for i in range(-n, n)]
    for a in range(0, n + 1):
        for b in range(a, n + 1):
            pats.append(("slice", a, b))
    pats.append(("slice", None, None))
    pats.append(("step", 2))
    if n:
        pats.append(("bool", [i % 2 == 0 for i in range(n)]))
        # increasing order: h5py itself rejects unordered index lists for
        # features stored in the file
        pats.append(("fancy", sorted({0, n - 1})))
    pats.append(("asarray",))
    return pats


def _apply(obj, pat):
    k = pat[0]
    if k == "int":
        return obj[pat[1]]
    if k == "slice":
        return obj[pat[1]:pat[2]]
    if k == "step":
        return obj[::pat[1]]
    if k == "bool":
        return obj[np.array(pat[1], bool)]
    if k == "fancy":
        return obj[np.array(pat[1])]
    return np.asarray(obj)


def _expected(arr, pat):
    if pat[0] == "asarray":
        return arr
    return _apply(arr, pat)


def check_referrer(path, ev, comp_map, case, tags, feats=FEATS, full=True,
                   override=None):
    """Compare every feature of the file at `path` (through its basins) with
    ev[feat][comp_map] for every access pattern."""
    import dclab
    out = []
    n = len(comp_map)
    comp_map = np.asarray(comp_map, dtype=int)

    def bad(where, symptom, detail, **t):
        out.append(violation(where, symptom, case, detail, dict(tags, **t)))
    try:
        ds = dclab.new_dataset(path)
    except BaseException as e:
        bad(FB + ":Basin", "exception", f"open: {type(e).__name__}: {e}",
            exc=type(e).__name__)
        return out
    with ds:
        if len(ds) != n:
            bad(FB + ":Basin", "wrong-length", f"len {len(ds)} != {n}")
            return out
        pats = access_patterns(n) if full else [
            ("int", 0), ("int", -1), ("slice", None, None), ("asarray",)]
        for feat in feats:
            try:
                avail = feat in ds
            except BaseException as e:
                avail = False
                bad(FB + ":Basin", "exception",
                    f"'{feat} in ds': {type(e).__name__}: {e}",
                    exc=type(e).__name__, feat=feat)
            if not avail:
                bad(FB + ":Basin", "feature-missing",
                    f"{feat} not offered by {path.name}", feat=feat)
                continue
            if feat == "contour":
                exp_list = [ev["contour"][i] for i in comp_map]
                for i in list(range(n)) + ([-1] if n else []):
                    try:
                        got = ds["contour"][i]
                        ok = gen.arrays_equal(got, exp_list[i])
                    except BaseException as e:
                        bad(FB + ":BasinProxyFeature.__getitem__",
                            "exception",
                            f"contour[{i}]: {type(e).__name__}: {e}",
                            feat=feat, exc=type(e).__name__)
                        break
                    if not ok:
                        bad(FB + ":BasinProxyFeature.__getitem__",
                            "wrong-data", f"contour[{i}]", feat=feat)
                        break
                continue
            if feat == "trace":
                objs = []
                try:
                    tr = ds["trace"]
                    for t in ev["trace"]:
                        objs.append((f"trace/{t}", tr[t],
                                     ev["trace"][t][comp_map]))
                except BaseException as e:
                    bad(FB + ":BasinProxyFeature.__getitem__", "exception",
                        f"ds['trace'][name]: {type(e).__name__}: {e}",
                        feat="trace", exc=type(e).__name__)
                    continue
            else:
                src = ev[feat] if override is None or feat not in override \
                    else override[feat]
                exp_arr = src[comp_map] if override is None or \
                    feat not in override else src
                objs = [(feat, ds[feat], exp_arr)]
            # the patterns once in order (single indices first, on an
            # object nobody has read yet) and the single indices and a
            # slice again after the whole-array accesses have been served
            again = [q for q in pats if q[0] == "int"] + [
                q for q in pats if q[0] == "slice"][:3]
            for name, obj, exp_arr in objs:
                # what the feature object says about itself: as many
                # events as the referrer has, the origin's event shape
                try:
                    desc = (len(obj), tuple(obj.shape))
                    want = (len(exp_arr), tuple(np.shape(exp_arr)))
                    if desc != want:
                        bad(FB + ":BasinProxyFeature", "wrong-shape",
                            f"{name}: len/shape {desc}, expected {want} "
                            f"(composed map {comp_map.tolist()})",
                            feat=feat)
                except BaseException as e:
                    bad(FB + ":BasinProxyFeature", "exception",
                        f"{name}: len/shape: {type(e).__name__}: {e}",
                        feat=feat, exc=type(e).__name__)
                for pi, pat in enumerate(list(pats) + again):
                    try:
                        got = _apply(obj, pat)
                        exp = _expected(exp_arr, pat)
                        ok = gen.arrays_equal(got, exp)
                    except BaseException as e:
                        bad(FB + ":BasinProxyFeature.__getitem__",
                            "exception",
                            f"{name}[{pat}] on {type(obj).__name__}: "
                            f"{type(e).__name__}: {e}", feat=feat,
                            exc=type(e).__name__, pat=pat[0],
                            second_pass=pi >= len(pats))
                        break
                    if not ok:
                        bad(FB + ":BasinProxyFeature.__getitem__",
                            "wrong-data",
                            f"{name}[{pat}] on {type(obj).__name__}: got "
                            f"{np.asarray(got).tolist()!r:.200} expected "
                            f"{np.asarray(exp).tolist()!r:.200} (composed "
                            f"map {comp_map.tolist()})", feat=feat,
                            pat=pat[0], second_pass=pi >= len(pats))
                        break
                # what a caller does with a returned array is the caller's
                # business: the next read still shows the origin's data
                try:
                    for arr in (obj[:], np.asarray(obj)):
                        if isinstance(arr, np.ndarray) and arr.size \
                                and arr.flags.writeable:
                            arr[...] = arr.max() + 1 if arr.dtype != bool \
                                else ~arr
                    if not gen.arrays_equal(obj[:], exp_arr):
                        bad(FB + ":BasinProxyFeature.__getitem__",
                            "wrong-data",
                            f"{name}: after the caller modified a returned "
                            f"array in place, the feature reads "
                            f"{np.asarray(obj[:]).tolist()!r:.200}",
                            feat=feat, pat="after-caller-edit")
                except BaseException as e:
                    bad(FB + ":BasinProxyFeature.__getitem__", "exception",
                        f"{name} re-read after caller edit: "
                        f"{type(e).__name__}: {e}", feat=feat,
                        exc=type(e).__name__, pat="after-caller-edit")
                if feat not in ("trace",) and hasattr(obj, "__len__"):
                    try:
                        if len(obj) != n:
                            bad(FB + ":BasinProxyFeature.__len__",
                                "wrong-length", f"len(ds['{feat}']) = "
                                f"{len(obj)} != {n}", feat=feat)
                    except BaseException:
                        pass
    # Another order of the same reads, on a freshly opened dataset: the very
    # first access converts the whole feature to another dtype (as plotting
    # code does); what is read afterwards is the origin's data again.
    try:
        ds2 = dclab.new_dataset(path)
    except BaseException:
        return out
    with ds2:
        for feat in feats:
            if feat in ("contour", "trace") or (override and feat in override):
                continue
            exp_arr = ev[feat][comp_map]
            try:
                if feat not in ds2:
                    continue
                obj = ds2[feat]
                steps = [("asarray-float32",
                          lambda: np.asarray(obj, dtype=np.float32),
                          exp_arr.astype(np.float32)),
                         ("slice", lambda: obj[:], exp_arr),
                         ("asarray", lambda: np.asarray(obj), exp_arr)]
                if n:
                    steps.append(("int", lambda: obj[n - 1], exp_arr[n - 1]))
                for pname, fn, exp in steps:
                    got = fn()
                    if not gen.arrays_equal(got, exp):
                        bad(FB + ":BasinProxyFeature.__array__",
                            "wrong-data",
                            f"{feat}: '{pname}' in the read order (float32 "
                            f"conversion, [:], asarray, [n-1]) on "
                            f"{type(obj).__name__}: got "
                            f"{np.asarray(got).tolist()!r:.160} expected "
                            f"{np.asarray(exp).tolist()!r:.160}",
                            feat=feat, pat=pname, order="dtype-first")
                        break
            except BaseException as e:
                bad(FB + ":BasinProxyFeature.__array__", "exception",
                    f"{feat} (dtype-first order): {type(e).__name__}: {e}",
                    feat=feat, exc=type(e).__name__, order="dtype-first")
    return out


def _export(src_path, mask, out_path, stored, via_child, child_mask=None):
    """One transition: filtered export with basins. Returns the indices (into
    the source file's events) of the exported events."""
    import dclab
    with dclab.new_dataset(src_path) as ds:
        n = len(ds)
        if via_child:
            cm = np.ones(n, bool) if child_mask is None else child_mask
            ds.filter.manual[:] = cm
            ds.apply_filter()
            ch = dclab.new_dataset(ds)
            base = np.flatnonzero(cm)
            m = np.asarray(mask, bool)[:len(ch)]
            ch.filter.manual[:] = m
            ch.apply_filter()
            ch.export.hdf5(out_path, features=stored, filtered=True,
                           basins=True)
            return base[np.flatnonzero(m)]
        ds.filter.manual[:] = np.asarray(mask, bool)
        ds.apply_filter()
        ds.export.hdf5(out_path, features=stored, filtered=True, basins=True)
        return np.flatnonzero(mask)


def nonempty_masks(n):
    for bits in range(1, 2 ** n):
        yield np.array([(bits >> i) & 1 for i in range(n)], bool)


def _chain_case(args):
    """All nested chains below one first-level mask."""
    bits, depth, stored_var, via_child, seed, scratch = args
    gen.register_user_features()
    stored = {"none": [], "scalar": ["area_um"],
              "mixed": ["deform", "image"]}[stored_var]
    d = scratch / f"c07_{bits}_{stored_var}_{int(via_child)}_{os.getpid()}"
    if d.exists():
        shutil.rmtree(d)
    d.mkdir()
    out = []
    nfiles = 0
    ev = gen.make_events(N0, seed=seed)
    origin = d / "origin.rtdc"
    gen.write_rtdc(origin, ev)
    tags = {"stored": stored_var, "via_child": via_child}
    try:
        def rec(src, cmap, level, hist):
            nonlocal nfiles
            n = len(cmap)
            masks = [np.array([(bits >> i) & 1 for i in range(N0)], bool)] \
                if level == 1 else list(nonempty_masks(n))
            for m in masks:
                if not m.any():
                    continue
                dst = d / f"f{level}_{nfiles}.rtdc"
                h2 = hist + [m.astype(int).tolist()]
                case = {"kind": "chain", "masks": h2, "stored": stored_var,
                        "via_child": via_child, "seed": seed}
                try:
                    if via_child == 2:
                        # through a hierarchy child at every level; the
                        # parent hides its first event, so that child and
                        # parent indices differ
                        cm = np.ones(n, bool)
                        if n >= 2:
                            cm[0] = False
                        if not m[:int(cm.sum())].any():
                            continue
                        sel = _export(src, m, dst, stored, True,
                                      child_mask=cm)
                    else:
                        sel = _export(src, m, dst, stored,
                                      via_child and level == 1)
                except BaseException as e:
                    out.append(violation(
                        "dclab.rtdc_dataset.export:Export.hdf5", "exception",
                        case, f"export level {level}: "
                        f"{type(e).__name__}: {e}",
                        dict(tags, exc=type(e).__name__, level=level)))
                    if dst.exists():
                        dst.unlink()
                    continue
                nfiles += 1
                cmap2 = np.asarray(cmap)[sel]
                out.extend(check_referrer(
                    dst, ev, cmap2, case, dict(tags, level=min(level, 3)),
                    full=(level == depth or len(cmap2) <= 2)))
                if level < depth:
                    rec(dst, cmap2, level + 1, h2)
                dst.unlink()
        rec(origin, np.arange(N0), 1, [])
    finally:
        shutil.rmtree(d, ignore_errors=True)
    return nfiles, out


def _map_case(args):
    """Direct store_basin with every map [m] -> [3] (file and internal)."""
    btype, seed, scratch = args
    from dclab.rtdc_dataset.writer import RTDCWriter
    gen.register_user_features()
    d = scratch / f"c07_map_{btype}_{os.getpid()}"
    if d.exists():
        shutil.rmtree(d)
    d.mkdir()
    out = []
    n0 = 3
    ev = gen.make_events(n0, seed=seed)
    origin = d / "origin.rtdc"
    gen.write_rtdc(origin, ev)
    count = 0
    try:
        for m in range(1, 5):
            for mp in itertools.product(range(n0), repeat=m):
                mp = np.array(mp, dtype=np.uint64)
                ref = d / "ref.rtdc"
                case = {"kind": "map", "btype": btype, "map": mp.tolist(),
                        "seed": seed}
                with RTDCWriter(ref, mode="reset") as hw:
                    hw.store_metadata(gen.complete_meta(m))
                    hw.store_feature("index_online",
                                     ev["index_online"][mp.astype(int)])
                    if btype == "file":
                        hw.store_basin("b", "file", "hdf5", [str(origin)],
                                       basin_map=mp)
                        feats = FEATS
                    else:
                        hw.store_basin(
                            "b", "internal", "h5dataset", ["basin_events"],
                            basin_feats=["deform", "area_um"], basin_map=mp,
                            internal_data={"deform": ev["deform"],
                                           "area_um": ev["area_um"]})
                        feats = ["deform", "area_um"]
                count += 1
                out.extend(check_referrer(
                    ref, ev, mp.astype(int), case,
                    {"btype": btype, "repeat": len(set(mp.tolist())) < m},
                    feats=feats))
                ref.unlink()
    finally:
        shutil.rmtree(d, ignore_errors=True)
    return count, out


def _special_case(args):
    which, seed, scratch = args
    import dclab
    from dclab.rtdc_dataset.writer import RTDCWriter
    gen.register_user_features()
    d = scratch / f"c07_sp_{which}_{os.getpid()}"
    if d.exists():
        shutil.rmtree(d)
    (d / "a").mkdir(parents=True)
    out = []
    ev = gen.make_events(N0, seed=seed)
    origin = d / "a" / "origin.rtdc"
    gen.write_rtdc(origin, ev)
    mask = np.array([1, 0, 1, 1, 0], bool)
    cmap = np.flatnonzero(mask)
    ref = d / "a" / "ref.rtdc"
    case = {"kind": "special", "which": which, "seed": seed}
    try:
        _export(origin, mask, ref, ["area_um"], False)
        if which == "moved-together":
            (d / "b").mkdir()
            shutil.move(str(origin), str(d / "b" / "origin.rtdc"))
            shutil.move(str(ref), str(d / "b" / "ref.rtdc"))
            out.extend(check_referrer(d / "b" / "ref.rtdc", ev, cmap, case,
                                      {"which": which}))
        elif which in ("compressed-referrer", "repacked-referrer"):
            # the referrer is copied by dclab-compress / dclab-repack: the
            # copy still gives the origin's events (the map travels along)
            from dclab import cli
            task = which.split("-")[0][:-2].replace("compress", "compress")
            task = "compress" if which.startswith("compress") else "repack"
            cp = d / "a" / "copy.rtdc"
            getattr(cli, task)(path_in=ref, path_out=cp)
            out.extend(check_referrer(cp, ev, cmap, case,
                                      {"which": which, "map": "subset"}))
            cp.unlink()
            # ... also for a map with a repeated and an out-of-order event
            dup = np.array([2, 0, 0, 4, 1], dtype=np.uint64)
            ref2 = d / "a" / "ref2.rtdc"
            with RTDCWriter(ref2, mode="reset") as hw:
                hw.store_metadata(gen.complete_meta(len(dup)))
                hw.store_feature("index_online", np.arange(len(dup)) + 1)
                hw.store_basin("b", "file", "hdf5", [str(origin)],
                               basin_map=dup)
            getattr(cli, task)(path_in=ref2, path_out=cp)
            out.extend(check_referrer(cp, ev, dup.astype(int), case,
                                      {"which": which, "map": "repeats"}))
        elif which == "several-internal-basins":
            # one file, three internal definitions sharing the group of
            # stored rows: different maps, different row counts, and one
            # definition that lists fewer features than the group holds
            f3 = d / "a" / "int3.rtdc"
            rows1 = np.array([7.5, 8.5, 9.5])
            rows2 = np.array([11.0, 12.0, 13.0, 14.0, 15.0, 16.0])
            rows3 = np.array([21.0, 22.0])
            m1 = np.array([0, 0, 1, 1, 2, 2], dtype=np.uint64)
            m2 = np.array([5, 3, 1, 0, 2, 4], dtype=np.uint64)
            m3 = np.array([1, 1, 0, 0, 1, 0], dtype=np.uint64)
            with RTDCWriter(f3, mode="reset") as hw:
                hw.store_metadata(gen.complete_meta(6, fl=False))
                hw.store_feature("deform", np.linspace(0.01, 0.06, 6))
                hw.store_basin("i1", "internal", "h5dataset",
                               ["basin_events"], basin_feats=["userdef1"],
                               basin_map=m1,
                               internal_data={"userdef1": rows1})
                hw.store_basin("i2", "internal", "h5dataset",
                               ["basin_events"], basin_feats=["userdef2"],
                               basin_map=m2,
                               internal_data={"userdef2": rows2})
                hw.store_basin("i3", "internal", "h5dataset",
                               ["basin_events"], basin_feats=["userdef3"],
                               basin_map=m3,
                               internal_data={"userdef3": rows3})
            expect = {"userdef1": rows1[m1.astype(int)],
                      "userdef2": rows2[m2.astype(int)],
                      "userdef3": rows3[m3.astype(int)]}
            with dclab.new_dataset(f3) as ds:
                for feat, exp_arr in expect.items():
                    for pat in access_patterns(6):
                        try:
                            ok = feat in ds and gen.arrays_equal(
                                _apply(ds[feat], pat),
                                _expected(exp_arr, pat))
                            detail = ""
                        except BaseException as e:
                            ok = False
                            detail = f"{type(e).__name__}: {e}"
                        if not ok:
                            out.append(violation(
                                FB + ":InternalH5DatasetBasin", "wrong-data",
                                case, f"{feat}[{pat}] in a file with three "
                                f"internal basins {detail}",
                                {"which": which, "feat": feat}))
                            break
        elif which == "foreign-unidentified-basin":
            # next to the (mapped) origin basin, a hand-made definition
            # points at a foreign file that carries no identifier at all
            # and other values: the features still come from the origin
            foreign = d / "a" / "foreign.rtdc"
            evf = {k: (np.asarray(v) + 0.5 if k in ("deform", "bright_avg")
                       else v) for k, v in ev.items() if k in (
                       "deform", "bright_avg", "index_online")}
            gen.write_rtdc(foreign, evf, meta=gen.complete_meta(N0, fl=False))
            with h5py.File(foreign, "a") as h5:
                for k in ("experiment:run identifier", "experiment:date",
                          "experiment:time", "setup:identifier"):
                    if k in h5.attrs:
                        del h5.attrs[k]
            with RTDCWriter(ref, mode="append") as hw:
                hw.store_basin("bogus", "file", "hdf5", [str(foreign)],
                               verify=False)
            out.extend(check_referrer(ref, ev, cmap, case, {"which": which},
                                      feats=["deform", "bright_avg",
                                             "area_um"], full=False))
        elif which == "origin-removed":
            origin.unlink()
            with dclab.new_dataset(ref) as ds:
                for feat in ("deform", "image"):
                    try:
                        avail = feat in ds
                        if avail:
                            val = np.asarray(ds[feat][:])
                            if not gen.arrays_equal(val, ev[feat][cmap]):
                                out.append(violation(
                                    FB + ":Basin", "wrong-data", case,
                                    f"{feat} with removed origin",
                                    {"which": which}))
                    except BaseException:
                        pass      # unavailable is fine
                if not gen.arrays_equal(ds["area_um"][:],
                                        ev["area_um"][cmap]):
                    out.append(violation(FB + ":Basin", "wrong-data", case,
                                         "stored feature", {"which": which}))
        elif which == "stored-wins":
            # the file's own feature differs from the basin's on purpose
            newvals = ev["area_um"][cmap] + 1000.0
            with h5py.File(ref, "a") as h5:
                h5["events/area_um"][:] = newvals
                for k in ("min", "max", "mean"):
                    if k in h5["events/area_um"].attrs:
                        del h5["events/area_um"].attrs[k]
            out.extend(check_referrer(
                ref, ev, cmap, case, {"which": which},
                feats=["area_um", "deform"], override={"area_um": newvals}))
        elif which == "similar-maps":
            # several mapped basins whose maps differ only slightly (also at
            # large index values): each must keep its own mapping feature
            import json
            maps = [np.array([0, 2, 4], dtype=np.uint64),
                    np.array([0, 2, 3], dtype=np.uint64),
                    np.array([1000000, 2000000, 3000001], dtype=np.uint64),
                    np.array([1000000, 2000000, 3000002], dtype=np.uint64),
                    np.array([2 ** 40, 2 ** 40 + 1, 2 ** 40 + 3],
                             dtype=np.uint64),
                    np.array([2 ** 40, 2 ** 40 + 1, 2 ** 40 + 2],
                             dtype=np.uint64)]
            r3 = d / "a" / "ref3.rtdc"
            with RTDCWriter(r3, mode="reset") as hw:
                hw.store_metadata(gen.complete_meta(3))
                hw.store_feature("deform", np.arange(3.0))
                for i, mp in enumerate(maps):
                    hw.store_basin(f"b{i}", "file", "hdf5",
                                   [f"/nonexistent/o{i}.rtdc"],
                                   basin_map=mp, verify=False)
            with h5py.File(r3, "r") as h5:
                seen = {}
                for key in h5["basins"]:
                    lines = [li.decode() if isinstance(li, bytes) else li
                             for li in h5["basins"][key][:]]
                    bd = json.loads(" ".join(lines))
                    seen[bd["name"]] = np.array(h5["events"][bd["mapping"]])
            for i, mp in enumerate(maps):
                got = seen.get(f"b{i}")
                if got is None or not np.array_equal(got, mp):
                    out.append(violation(
                        "dclab.rtdc_dataset.writer:RTDCWriter.store_basin",
                        "wrong-map-stored", case,
                        f"basin b{i}: stored map {got} instead of "
                        f"{mp.tolist()}", {"which": which}))
        elif which == "mapped-chunk-cross":
            # a map crossing chunk boundaries of a 23-event origin
            ev2 = gen.make_events(23, seed=seed)
            o2 = d / "a" / "origin2.rtdc"
            with gen.chunk_bytes(100):
                gen.write_rtdc(o2, ev2)
            mp = np.array([22, 9, 10, 11, 0, 19, 20, 21, 10, 10],
                          dtype=np.uint64)
            r2 = d / "a" / "ref2.rtdc"
            with RTDCWriter(r2, mode="reset") as hw:
                hw.store_metadata(gen.complete_meta(len(mp)))
                hw.store_feature("index_online",
                                 ev2["index_online"][mp.astype(int)])
                hw.store_basin("b", "file", "hdf5", [str(o2)], basin_map=mp)
            out.extend(check_referrer(r2, ev2, mp.astype(int), case,
                                      {"which": which}, full=False))
    except BaseException as e:
        out.append(violation(FB + ":Basin", "exception", case,
                             f"{which}: {type(e).__name__}: {e}",
                             {"which": which, "exc": type(e).__name__}))
    finally:
        shutil.rmtree(d, ignore_errors=True)
    return 1, out


def _child_of_referrer_case(args):
    """A file that refers to the origin through an unmapped / a mapped
    basin is filtered (one parent mask per case), a hierarchy child is made
    and exported with basins - filtered with every non-empty child mask,
    and once unfiltered: the export's basin features are the origin's at
    the composed indices."""
    bits, mapped, seed, scratch = args
    import dclab
    from dclab.rtdc_dataset.writer import RTDCWriter
    gen.register_user_features()
    d = scratch / f"c07_cor_{bits}_{int(mapped)}_{os.getpid()}"
    if d.exists():
        shutil.rmtree(d)
    d.mkdir()
    out = []
    cnt = 0
    ev = gen.make_events(N0, seed=seed)
    origin = d / "origin.rtdc"
    gen.write_rtdc(origin, ev)
    rmap = np.array([4, 0, 3, 3, 1, 2]) if mapped else np.arange(N0)
    ref = d / "ref.rtdc"
    with RTDCWriter(ref, mode="reset") as hw:
        hw.store_metadata(gen.complete_meta(len(rmap)))
        hw.store_feature("index_online", np.arange(len(rmap)) + 1)
        kw = {"basin_map": rmap.astype(np.uint64)} if mapped else {}
        hw.store_basin("b", "file", "hdf5", [str(origin)], **kw)
    n = len(rmap)
    pm = np.array([(bits >> i) & 1 for i in range(n)], bool)
    tags = {"which": "child-of-referrer", "mapped": mapped}
    try:
        for cm in list(nonempty_masks(int(pm.sum()))) + [None]:
            cnt += 1
            dst = d / "exp.rtdc"
            case = {"kind": "child-of-referrer", "bits": bits,
                    "mapped": mapped, "seed": seed,
                    "child_mask": None if cm is None
                    else cm.astype(int).tolist()}
            try:
                with dclab.new_dataset(ref) as ds:
                    ds.filter.manual[:] = pm
                    ds.apply_filter()
                    ch = dclab.new_dataset(ds)
                    if cm is not None:
                        ch.filter.manual[:] = cm
                        ch.apply_filter()
                    ch.export.hdf5(dst, features=["index_online"],
                                   filtered=cm is not None, basins=True)
            except BaseException as e:
                out.append(violation(
                    "dclab.rtdc_dataset.export:Export.hdf5", "exception",
                    case, f"{type(e).__name__}: {e}",
                    dict(tags, exc=type(e).__name__)))
                if dst.exists():
                    dst.unlink()
                continue
            sel = np.flatnonzero(pm)
            if cm is not None:
                sel = sel[cm]
            out.extend(check_referrer(dst, ev, rmap[sel], case,
                                      dict(tags, filtered=cm is not None),
                                      full=False))
            dst.unlink()
            # one level deeper: a child of that child (which hides its first
            # event when it has two or more), exported the same way
            if cm is not None and int(cm.sum()) >= 2:
                cnt += 1
                gcase = dict(case, grandchild=True)
                try:
                    with dclab.new_dataset(ref) as ds:
                        ds.filter.manual[:] = pm
                        ds.apply_filter()
                        ch = dclab.new_dataset(ds)
                        ch.filter.manual[:] = cm
                        ch.apply_filter()
                        gc = dclab.new_dataset(ch)
                        gm = np.ones(len(gc), bool)
                        gm[0] = False
                        gc.filter.manual[:] = gm
                        gc.apply_filter()
                        gc.export.hdf5(dst, features=["index_online"],
                                       filtered=True, basins=True)
                except BaseException as e:
                    out.append(violation(
                        "dclab.rtdc_dataset.export:Export.hdf5", "exception",
                        gcase, f"{type(e).__name__}: {e}",
                        dict(tags, exc=type(e).__name__, depth=2)))
                    if dst.exists():
                        dst.unlink()
                    continue
                out.extend(check_referrer(dst, ev, rmap[sel[gm]], gcase,
                                          dict(tags, depth=2), full=False))
                dst.unlink()
    finally:
        shutil.rmtree(d, ignore_errors=True)
    return cnt, out


def _long_chain_case(args):
    """A chain of filtered exports whose sizes step down across the limits
    of the unsigned integer types: 70001 -> 35000 -> 350 -> 175 -> 35
    events (origin indices above 65535 and above 255 survive into the
    small files).  In every generation the features that only the origin
    stores equal the origin's at the composed indices, for a whole-array
    read, slices at both ends and single indices."""
    scratch, via_child = args
    import dclab
    d = scratch / f"c07_long_{int(via_child)}_{os.getpid()}"
    if d.exists():
        shutil.rmtree(d)
    d.mkdir()
    out = []
    cnt = 0
    n0 = 70001
    k = np.arange(n0)
    ev = {"deform": 0.01 + (k % 997) * 1e-4,
          "area_um": 30.0 + (k % 4099) * 0.125,
          "bright_avg": 100.0 + (k % 251) * 0.5 + k * 1e-3,
          "frame": k * 3 + 7}
    case = {"kind": "long-chain", "via_child": via_child}
    try:
        src = d / "g0.rtdc"
        gen.write_rtdc(src, ev, meta=gen.complete_meta(n0, fl=False))
        idx = np.arange(n0)
        cur = src
        for g, (start, step) in enumerate([(1, 2), (0, 100), (1, 2),
                                           (4, 5)], start=1):
            nxt = d / f"g{g}.rtdc"
            with dclab.new_dataset(cur) as ds:
                m = np.zeros(len(ds), bool)
                m[start::step] = True
                # the events nearest to the end of the origin stay in
                m[-1] = True
                ds.filter.manual[:] = m
                ds.apply_filter()
                src_ds = dclab.new_dataset(ds) if via_child else ds
                src_ds.export.hdf5(nxt, features=["frame"], filtered=True,
                                   basins=True)
            idx = idx[m]
            cur = nxt
            with dclab.new_dataset(nxt) as de:
                for f in ("deform", "area_um", "bright_avg"):
                    cnt += 1
                    exp = ev[f][idx]
                    try:
                        ok = f in de and len(de[f]) == len(idx) \
                            and gen.arrays_equal(de[f][:], exp) \
                            and gen.arrays_equal(de[f][:7], exp[:7]) \
                            and gen.arrays_equal(de[f][len(idx) - 7:],
                                                 exp[-7:]) \
                            and all(de[f][j] == exp[j]
                                    for j in (0, len(idx) // 2,
                                              len(idx) - 1))
                        detail = ""
                    except Exception as e:
                        ok = False
                        detail = f" ({type(e).__name__}: {e})"
                    if not ok:
                        out.append(violation(
                            FB + ":BasinProxyFeature.__getitem__",
                            "wrong-data", case,
                            f"generation {g} ({len(idx)} events, origin "
                            f"indices up to {int(idx.max())}): {f} differs "
                            f"from the origin at the composed indices"
                            + detail,
                            {"feat": f, "generation": g,
                             "scope": "long-chain"}))
                        break
    except Exception as e:
        out.append(violation(FB + ":BasinProxyFeature.__getitem__",
                             "exception", case, f"{type(e).__name__}: {e}",
                             {"exc": type(e).__name__,
                              "scope": "long-chain"}))
    finally:
        shutil.rmtree(d, ignore_errors=True)
    return cnt, out


def run(ctx):
    scratch = ctx.scratch
    depth = 3
    items = []
    for bits in range(1, 2 ** N0):
        for stored_var, via_child in (("none", False), ("mixed", False),
                                      ("scalar", True), ("none", 2)):
            # quick: depth 3 without stored features, depth 2 otherwise
            dd = depth if (ctx.thorough or stored_var == "none") else 2
            items.append((bits, dd, stored_var, via_child, ctx.seed,
                          scratch))
    res = par.pmap(_chain_case, items)
    res2 = par.pmap(_map_case, [(bt, ctx.seed, scratch)
                                for bt in ("file", "internal")])
    res3 = par.pmap(_special_case, [(w, ctx.seed, scratch) for w in (
        "moved-together", "origin-removed", "stored-wins",
        "mapped-chunk-cross", "similar-maps", "several-internal-basins",
        "compressed-referrer", "repacked-referrer",
        "foreign-unidentified-basin")])
    viols = []
    nfiles = 0
    for n, vs in res + res2 + res3:
        nfiles += n
        viols.extend(vs)
    trans = sum(n for n, _ in res)
    cov = {"states": nfiles + 1, "transitions": trans,
           "traces_validated_against_impl": nfiles,
           "max_depth": depth,
           "maps_enumerated": sum(n for n, _ in res2),
           "access_patterns_per_feature": len(access_patterns(N0)),
           "samples": [{"masks": [[1, 0, 1, 1, 0], [1, 1, 0]],
                        "stored": "none"},
                       {"map": [2, 0, 0, 1], "btype": "file"},
                       {"special": "stored-wins"}],
           "exhaustive": True,
           "rule": "states are files; transitions are filtered exports with "
                   "basins; all nested mask chains of an origin with 5 "
                   "events to the depth bound (first-level: all 31 masks), "
                   "x stored-feature variants x export from a hierarchy "
                   "child; all maps [m]->[3], m<=4, via store_basin (file / "
                   "internal)"}
    # one large input (30000 events) through this property's entry points
    from .. import big
    viols = list(viols) + big.violations("C07", ctx.scratch)
    cov["big_input_events"] = big.N
    lres = par.pmap(_long_chain_case, [(scratch, False), (scratch, True)])
    lres += par.pmap(_child_of_referrer_case, [
        (bits, mp, ctx.seed, scratch)
        for mp in (False, True)
        for bits in range(1, 2 ** (6 if mp else N0))
        if ctx.thorough or bin(bits).count("1") in (1, 3, 4)])
    cov["long_chain_reads"] = sum(c for c, _ in lres)
    for _, vs in lres:
        viols.extend(vs)
    return {"level": LEVEL, "coverage": cov, "violations": viols,
            "assumptions": ["origin of 5 events (23 for the chunk-crossing "
                            "map); referrer and origin in one directory"]}


def replay(case, ctx):
    if case.get("kind") == "big":
        from .. import big
        return big.violations("C07", ctx.scratch)
    if case["kind"] == "child-of-referrer":
        return [v for v in _child_of_referrer_case(
            (case["bits"], case["mapped"], case["seed"], ctx.scratch))[1]
            if v["case"] == case]
    if case["kind"] == "long-chain":
        return _long_chain_case((ctx.scratch, case["via_child"]))[1]
    if case["kind"] == "map":
        _, vs = _map_case((case["btype"], case["seed"], ctx.scratch))
        return [v for v in vs if v["case"].get("map") == case["map"]] or vs
    if case["kind"] == "special":
        _, vs = _special_case((case["which"], case["seed"], ctx.scratch))
        return vs
    m0 = case["masks"][0]
    bits = sum(b << i for i, b in enumerate(m0))
    _, vs = _chain_case((bits, len(case["masks"]), case["stored"],
                         case["via_child"], case["seed"], ctx.scratch))
    same = [v for v in vs if v["case"]["masks"] == case["masks"]]
    return same or vs
