"""C20 -- reported feature minima, maxima and means match the data.

E3: every composition of N events into append calls x every placement of NaN
over the events (plus integer features, single events, replace mode); then
every production step (join, compress, repack, condense, export, hierarchy
refresh, basin access) applied to files with and without stored summaries.
Oracle: ds[f].min()/max()/mean() == numpy nanmin/nanmax/nanmean(ds[f][:]).
"""
import itertools
import os

import h5py
import numpy as np

from .. import gen, par
from ..runner import violation
from .c01 import compositions

PROPERTY = "C20"
LEVEL = "exploration"
N = 6
BASE = np.array([0.05, 0.02, 0.09, 0.01, 0.07, 0.03])


def summary_violations(ds, feats, where, case, tags, kind):
    out = []
    for feat in feats:
        try:
            obj = ds[feat]
            data = np.asarray(obj[:], dtype=float)
        except Exception as e:
            out.append(violation(where, "exception", case,
                                 f"{kind}: reading {feat}: "
                                 f"{type(e).__name__}: {e}",
                                 dict(tags, stat="read")))
            continue
        with np.errstate(all="ignore"):
            import warnings
            with warnings.catch_warnings():
                warnings.simplefilter("ignore")
                exp = {"min": np.nanmin(data) if data.size else np.nan,
                       "max": np.nanmax(data) if data.size else np.nan,
                       "mean": np.nanmean(data) if data.size else np.nan}
        for stat, e in exp.items():
            try:
                got = float(getattr(obj, stat)())
            except Exception as ex:
                out.append(violation(
                    where, "exception", case,
                    f"{kind}: ds['{feat}'].{stat}() raised "
                    f"{type(ex).__name__}: {ex} (object "
                    f"{type(obj).__name__})",
                    dict(tags, stat=stat, exc=type(ex).__name__,
                         obj=type(obj).__name__)))
                continue
            ok = (np.isnan(got) and np.isnan(e)) or got == e or (
                not np.isnan(got) and not np.isnan(e)
                and abs(got - e) <= 1e-9 * max(1.0, abs(e)))
            if not ok:
                out.append(violation(
                    where, "wrong-summary", case,
                    f"{kind}: ds['{feat}'].{stat}()={got!r} but "
                    f"nan{stat} of the data {data.tolist()} is {e!r}",
                    dict(tags, stat=stat)))
    return out


def _write(path, data, comp, mode="append", feat="deform", extra=True,
           other=None):
    """other: (path, data) of a second measurement that is written in the
    same process, one part after each part of the first (two recordings
    converted side by side)."""
    from dclab.rtdc_dataset.writer import RTDCWriter
    n = len(data)
    pos = 0
    first = True
    for p in comp:
        with RTDCWriter(path, mode="reset" if first else mode) as hw:
            if first:
                hw.store_metadata(gen.complete_meta(n, fl=False))
            hw.store_feature(feat, data[pos:pos + p])
            if extra:
                hw.store_feature("area_um", np.arange(pos, pos + p) * 2.0 + 1)
        if other is not None:
            with RTDCWriter(other[0], mode="reset" if first else mode) as hw:
                if first:
                    hw.store_metadata(gen.complete_meta(n, fl=False))
                hw.store_feature(feat, other[1][pos:pos + p])
                hw.store_feature("area_um",
                                 np.arange(pos, pos + p) * 3.0 + 2)
        first = False
        pos += p


def _write_one_writer(path, data, comp, feat="deform"):
    from dclab.rtdc_dataset.writer import RTDCWriter
    with RTDCWriter(path, mode="reset") as hw:
        hw.store_metadata(gen.complete_meta(len(data), fl=False))
        pos = 0
        for p in comp:
            hw.store_feature(feat, data[pos:pos + p])
            hw.store_feature("area_um", np.arange(pos, pos + p) * 2.0 + 1)
            pos += p


def _comp_case(args):
    """All NaN placements for one composition."""
    comp, reopen, scratch = args
    import dclab
    out = []
    n = sum(comp)
    path = scratch / f"c20_{os.getpid()}.rtdc"
    nontrivial = 0
    for bits in range(2 ** n):
        data = BASE[:n].copy()
        nanpos = [i for i in range(n) if bits >> i & 1]
        data[nanpos] = np.nan
        path2 = path.with_name(path.stem + "_b.rtdc")
        if reopen == 2:
            # a second file with the same features, NaN where the first
            # has values, written alternately with the first
            data2 = np.where(np.isnan(data), BASE[:n] + 0.25, np.nan)
            data2[-1] = 0.5
            _write(path, data, comp, other=(path2, data2))
        elif reopen:
            _write(path, data, comp)
        else:
            _write_one_writer(path, data, comp)
        # NaN counts per part (the class of input that matters)
        pos, per_part = 0, []
        for p in comp:
            per_part.append(int(np.isnan(data[pos:pos + p]).sum()))
            pos += p
        uneven = len({(c, p) for c, p in zip(per_part, comp)}) > 1 and any(
            per_part)
        first_all_nan = per_part[0] == comp[0] and len(comp) > 1
        nontrivial += bool(uneven)
        case = {"kind": "append", "comp": list(comp), "reopen": reopen,
                "nan": nanpos}
        tags = {"parts": min(len(comp), 2),
                "first_part_all_nan": bool(first_all_nan),
                "all_nan": len(nanpos) == n}
        with dclab.new_dataset(path) as ds:
            out += summary_violations(
                ds, ["deform", "area_um"],
                "dclab.rtdc_dataset.writer:RTDCWriter.write_ndarray", case,
                tags, f"appends {comp} NaN at {nanpos}")
        if reopen == 2:
            with dclab.new_dataset(path2) as ds:
                out += summary_violations(
                    ds, ["deform", "area_um"],
                    "dclab.rtdc_dataset.writer:RTDCWriter.write_ndarray",
                    case, dict(tags, file="second"),
                    f"second file written alternately, appends {comp}")
            path2.unlink()
    if path.exists():
        path.unlink()
    return 2 ** n, nontrivial, out


def _special_case(args):
    """Integer features, single event, replace mode."""
    which, scratch = args
    import dclab
    from dclab.rtdc_dataset.writer import RTDCWriter
    out = []
    path = scratch / f"c20s_{which}_{os.getpid()}.rtdc"
    case = {"kind": "special", "which": which}
    W = "dclab.rtdc_dataset.writer:RTDCWriter.write_ndarray"
    if which == "int":
        for comp in compositions(5):
            data = np.array([7, 2, 2 ** 31 + 5, 0, 11], dtype=np.int64)
            _write_one_writer(path, data, comp, feat="fl1_max")
            with dclab.new_dataset(path) as ds:
                out += summary_violations(ds, ["fl1_max"], W, case,
                                          {"int": True}, f"int {comp}")
    elif which.startswith("inf"):
        # every placement of finite / NaN / +inf / -inf values over four
        # events, for one composition (which = "inf-<k>-<reopen>")
        _, k, ro = which.split("-")
        comp = list(compositions(4))[int(k)]
        vals = (None, np.nan, np.inf, -np.inf)
        for pl in itertools.product(range(4), repeat=4):
            if not any(p >= 2 for p in pl):
                continue
            data = BASE[:4].copy()
            for i, p in enumerate(pl):
                if p:
                    data[i] = vals[p]
            if int(ro):
                _write(path, data, comp)
            else:
                _write_one_writer(path, data, comp)
            with dclab.new_dataset(path) as ds:
                out += summary_violations(
                    ds, ["deform"], W, case,
                    {"inf": True, "parts": min(len(comp), 2)},
                    f"appends {comp} of {data.tolist()}")
    elif which == "single":
        for val in (0.5, np.nan, np.inf):
            _write_one_writer(path, np.array([val]), (1,))
            with dclab.new_dataset(path) as ds:
                out += summary_violations(ds, ["deform"], W, case,
                                          {"single": True}, f"single {val}")
    elif which == "replace":
        for nanfirst in (False, True):
            d1 = np.array([np.nan, np.nan, 0.5] if nanfirst else
                          [0.9, 0.8, 0.7])
            d2 = np.array([0.1, np.nan, 0.3, 0.2])
            with RTDCWriter(path, mode="reset") as hw:
                hw.store_metadata(gen.complete_meta(3, fl=False))
                hw.store_feature("deform", d1)
            with RTDCWriter(path, mode="replace") as hw:
                hw.store_feature("deform", d2)
            with dclab.new_dataset(path) as ds:
                out += summary_violations(ds, ["deform"], W, case,
                                          {"replace": True}, "replace mode")
    elif which == "append-to-bare":
        # a file whose datasets carry no / only some summaries (written by
        # acquisition software or an older version), then appended to
        for keep in ((), ("min", "max"), ("mean",)):
            for d1, d2 in (([0.9, 0.8, 0.7], [0.1, np.nan, 0.3, 0.2]),
                           ([np.nan, np.nan], [0.4, 0.6]),
                           ([5.0, 1.0, 3.0], [np.nan])):
                with RTDCWriter(path, mode="reset") as hw:
                    hw.store_metadata(gen.complete_meta(len(d1), fl=False))
                    hw.store_feature("deform", np.array(d1))
                    hw.store_feature("area_um", np.array(d1) * 100)
                with h5py.File(path, "a") as h5:
                    for f in ("deform", "area_um"):
                        for k in ("min", "max", "mean"):
                            if k not in keep and k in h5["events"][f].attrs:
                                del h5["events"][f].attrs[k]
                with RTDCWriter(path, mode="append") as hw:
                    hw.store_feature("deform", np.array(d2))
                    hw.store_feature("area_um", np.array(d2) * 100)
                with dclab.new_dataset(path) as ds:
                    out += summary_violations(
                        ds, ["deform", "area_um"], W, case,
                        {"bare": True, "kept": ",".join(keep) or "none"},
                        f"append to a file with summaries {keep or 'none'}")
    if path.exists():
        path.unlink()
    return out


def _strip_summaries(path):
    """Files as acquisition software or plain h5py writes them: no stored
    summaries, and the scalar features in chunks of two events (so that
    whatever completes the summaries later sees several chunks with
    different numbers of valid values)."""
    with h5py.File(path, "a") as h5:
        for f in list(h5["events"]):
            obj = h5["events"][f]
            if isinstance(obj, h5py.Dataset):
                for k in ("min", "max", "mean"):
                    if k in obj.attrs:
                        del obj.attrs[k]
                if obj.ndim == 1 and obj.shape[0] > 2:
                    data = obj[:]
                    attrs = dict(obj.attrs)
                    del h5["events"][f]
                    new = h5["events"].create_dataset(
                        f, data=data, chunks=(2,), maxshape=(None,))
                    for k, v in attrs.items():
                        new.attrs[k] = v


def _production_case(args):
    step, stored, nanvar, scratch = args
    import dclab
    from dclab import cli
    from dclab.rtdc_dataset.writer import RTDCWriter
    out = []
    tag = f"{step}_{stored}_{nanvar}_{os.getpid()}"
    d = scratch / f"c20p_{tag}"
    d.mkdir(exist_ok=True)
    n = 6
    ev = gen.make_events(n, seed=3, special=False,
                         feats=["deform", "area_um", "bright_avg", "time",
                                "frame", "index_online"])
    nanpos = {"none": [], "some": [0, 3], "first3": [0, 1, 2],
              "inf": [4], "infs": [1]}[nanvar]
    ev["deform"][nanpos] = np.nan
    if nanvar == "inf":
        # an infinite value in the first part (mean = inf)
        ev["deform"][1] = np.inf
    elif nanvar == "infs":
        # both infinities, in different parts (mean = NaN, min/max = -/+inf)
        ev["deform"][0] = -np.inf
        ev["deform"][5] = np.inf
    src = d / "src.rtdc"
    gen.write_rtdc(src, ev, parts=[3, 3])
    if not stored:
        _strip_summaries(src)
    case = {"kind": "production", "step": step, "stored": stored,
            "nanvar": nanvar}
    tags = {"step": step}
    # two float features with NaN patterns, a computed one and two integer
    # features (their mean is not an integer)
    feats = ["deform", "area_um", "time", "frame", "index_online"]

    def chk(path_or_ds, where, kind):
        if isinstance(path_or_ds, (str, os.PathLike)):
            with dclab.new_dataset(path_or_ds) as ds:
                return summary_violations(ds, feats, where, case, tags, kind)
        return summary_violations(path_or_ds, feats, where, case, tags, kind)
    try:
        if step == "compress":
            cli.compress(path_in=src, path_out=d / "o.rtdc")
            out += chk(d / "o.rtdc", "dclab.rtdc_dataset.copier:rtdc_copy",
                       "compress")
        elif step == "repack":
            cli.repack(path_in=src, path_out=d / "o.rtdc")
            out += chk(d / "o.rtdc", "dclab.cli.task_repack:repack", "repack")
        elif step == "condense":
            cli.condense(path_in=src, path_out=d / "o.rtdc")
            out += chk(d / "o.rtdc", "dclab.cli.task_condense:condense",
                       "condense")
        elif step in ("export", "export-filtered"):
            with dclab.new_dataset(src) as ds:
                if step == "export-filtered":
                    ds.filter.manual[[1, 4]] = False
                    ds.apply_filter()
                ds.export.hdf5(d / "o.rtdc", features=["deform", "area_um",
                                                       "time", "frame",
                                                       "index_online"],
                               filtered=step == "export-filtered")
            out += chk(d / "o.rtdc", "dclab.rtdc_dataset.export:Export.hdf5",
                       step)
        elif step in ("join2", "join3"):
            k = 2 if step == "join2" else 3
            paths = [src]
            for j in range(1, k):
                evj = gen.make_events(4, seed=10 + j, special=False,
                                      feats=list(ev.keys()))
                if j == 1:
                    evj["deform"][:] = np.nan     # an all-NaN input
                pj = d / f"src{j}.rtdc"
                gen.write_rtdc(pj, evj, meta=gen.complete_meta(
                    4, fl=False, time=f"12:0{j}:00", run_index=j + 1))
                if not stored:
                    _strip_summaries(pj)
                paths.append(pj)
            cli.join(paths_in=paths, path_out=d / "o.rtdc")
            out += chk(d / "o.rtdc", "dclab.cli.task_join:join", step)
        elif step == "hierarchy":
            with dclab.new_dataset(src) as ds:
                ds.config["filtering"]["area_um min"] = float(
                    np.sort(ev["area_um"])[2])
                ds.config["filtering"]["area_um max"] = 1e9
                ch = dclab.new_dataset(ds)
                out += chk(ch, "dclab.rtdc_dataset.fmt_hierarchy.events:"
                           "ChildScalar", "hierarchy child")
                first = float(ch["deform"].mean())
                ds.config["filtering"]["area_um min"] = float(
                    np.sort(ev["area_um"])[1])
                ch.rejuvenate()
                out += chk(ch, "dclab.rtdc_dataset.fmt_hierarchy.events:"
                           "ChildScalar", f"child after refresh ({first})")
                # the parent's *data* change while its filter stays as it
                # is (the frame rate enters "time"; a temporary feature is
                # replaced): summaries asked for before must not survive
                gen.register_user_features()
                nn = len(ds)
                dclab.set_temporary_feature(ds, gen.USER_SCALAR,
                                            np.arange(nn) * 2.0)
                gch = dclab.new_dataset(ch)
                for dd in (ch, gch):
                    dd.rejuvenate()
                    for f_ in ("time", gen.USER_SCALAR):
                        dd[f_].mean(), dd[f_].min(), dd[f_].max()
                ds.config["imaging"]["frame rate"] = 3 * float(
                    ds.config["imaging"]["frame rate"])
                dclab.set_temporary_feature(ds, gen.USER_SCALAR,
                                            100.0 - np.arange(nn) * 3.0)
                gch.rejuvenate()
                for name, dd in (("child", ch), ("grandchild", gch)):
                    out += summary_violations(
                        dd, ["time", gen.USER_SCALAR, "deform"],
                        "dclab.rtdc_dataset.fmt_hierarchy.events:"
                        "ChildScalar", case, tags,
                        f"{name} after the parent's data changed (filter "
                        f"unchanged)")
        elif step in ("hierarchy-nofilter", "hierarchy-dict"):
            # a child that keeps every event; parents whose features are
            # plain arrays (dict dataset, temporary / computed features)
            if step == "hierarchy-dict":
                par_ = dclab.new_dataset({k: np.array(v) for k, v in
                                          ev.items()})
                par_.config["imaging"]["frame rate"] = 2000.0
            else:
                par_ = dclab.new_dataset(src)
            gen.register_user_features()
            tmp = np.array([np.nan, 2.0, 5.0, np.nan, -1.0, 3.0])
            dclab.set_temporary_feature(par_, gen.USER_SCALAR, tmp)
            ch = dclab.new_dataset(par_)
            gch = dclab.new_dataset(ch)
            fts = feats + [gen.USER_SCALAR]
            for name, dd in (("child", ch), ("grandchild", gch)):
                out += summary_violations(
                    dd, fts, "dclab.rtdc_dataset.fmt_hierarchy.events:"
                    "ChildScalar", case, tags, f"{step} {name} (no event "
                    f"filtered out)")
            par_.filter.manual[2] = False
            gch.rejuvenate()
            out += summary_violations(
                gch, fts, "dclab.rtdc_dataset.fmt_hierarchy.events:"
                "ChildScalar", case, tags, f"{step} grandchild after a "
                f"filter")
            par_.filter.manual[2] = True
            gch.rejuvenate()
            out += summary_violations(
                gch, fts, "dclab.rtdc_dataset.fmt_hierarchy.events:"
                "ChildScalar", case, tags, f"{step} grandchild after the "
                f"filter was removed again")
            if step != "hierarchy-dict":
                par_.close()
        elif step in ("basin", "basin-mapped"):
            ref = d / "ref.rtdc"
            # maps: a subset with a repeat; every basin event with repeats
            # (weights differ); a permutation; a single event
            maps = [[4, 1, 1, 5, 0], [0, 1, 2, 3, 4, 4, 4, 4, 5],
                    [5, 3, 0, 1, 2, 4], [2]] if step == "basin-mapped" \
                else [None]
            for mp in maps:
                mapping = None if mp is None else np.array(mp,
                                                           dtype=np.uint64)
                with RTDCWriter(ref, mode="reset") as hw:
                    hw.store_metadata(gen.complete_meta(
                        n if mp is None else len(mp), fl=False))
                    if step == "basin":
                        hw.store_feature("index_online", ev["index_online"])
                        hw.store_basin("b", "file", "hdf5", [str(src)])
                    else:
                        hw.store_feature(
                            "index_online",
                            ev["index_online"][mapping.astype(int)])
                        hw.store_basin("b", "file", "hdf5", [str(src)],
                                       basin_map=mapping)
                with dclab.new_dataset(ref) as ds:
                    out += chk(ds, "dclab.rtdc_dataset.feat_basin:"
                               "BasinProxyFeature" if step == "basin-mapped"
                               else "dclab.rtdc_dataset.feat_basin:Basin",
                               step if mp is None else f"{step} {mp}")
    except Exception as e:
        out.append(violation(f"dclab.cli:{step}", "exception", case,
                             f"{step}: {type(e).__name__}: {e}",
                             dict(tags, exc=type(e).__name__)))
    finally:
        import shutil
        shutil.rmtree(d, ignore_errors=True)
    return out


def run(ctx):
    scratch = ctx.scratch
    viols = []
    comps = [c for n in ((4, 6) if ctx.quick else (3, 4, 5, 6))
             for c in compositions(n)]
    items = [(c, ro, scratch) for c in comps for ro in (False, True)]
    # two files written alternately in one process (N = 4)
    items += [(c, 2, scratch) for c in compositions(4)]
    res = par.pmap(_comp_case, items)
    evals = sum(r[0] for r in res)
    nontriv = sum(r[1] for r in res)
    for r in res:
        viols.extend(r[2])
    infs = [f"inf-{k}-{ro}" for k in range(len(list(compositions(4))))
            for ro in (0, 1)]
    for vs in par.pmap(_special_case, [(w, scratch) for w in
                                       ["int", "single", "replace",
                                        "append-to-bare"] + infs]):
        viols.extend(vs)
    steps = ["compress", "repack", "condense", "export", "export-filtered",
             "join2", "join3", "hierarchy", "hierarchy-nofilter",
             "hierarchy-dict", "basin", "basin-mapped"]
    pitems = [(s, st, nv, scratch) for s in steps for st in (True, False)
              for nv in ("none", "some", "first3", "inf", "infs")]
    for vs in par.pmap(_production_case, pitems):
        viols.extend(vs)
    cov = {
        "evaluations": evals + len(pitems) + 3 + len(infs) * 240,
        "inf_placement_files": len(infs) * 240,
        "distinct_nontrivial": nontriv,
        "rule": "files = (composition of N events into append calls, with "
                "one writer or re-opened per call) x all 2^N NaN placements; "
                "non-trivial = NaNs unevenly distributed over the parts; "
                "plus int/single/replace and 12 production steps x stored/"
                "stripped summaries x 5 NaN / inf variants",
        "compositions": len(comps), "production_cases": len(pitems),
        "samples": [{"comp": list(items[0][0]), "nan": [0]},
                    {"comp": list(items[-1][0]), "reopen": True},
                    {"step": pitems[7][0], "stored": pitems[7][1],
                     "nan": pitems[7][2]}],
        "exhaustive": True,
    }
    # one large input (30000 events) through this property's entry points
    from .. import big
    viols = list(viols) + big.violations("C20", ctx.scratch)
    cov["big_input_events"] = big.N
    return {"level": LEVEL, "coverage": cov, "violations": viols,
            "assumptions": ["mean compared to 1e-9 relative",
                            "N <= 6 events per file"]}


def replay(case, ctx):
    if case.get("kind") == "big":
        from .. import big
        return big.violations("C20", ctx.scratch)
    if case["kind"] == "append":
        _, _, vs = _comp_case((tuple(case["comp"]), case["reopen"],
                               ctx.scratch))
        return vs
    if case["kind"] == "special":
        return _special_case((case["which"], ctx.scratch))
    return _production_case((case["step"], case["stored"], case["nanvar"],
                             ctx.scratch))
