"""C01 -- data written through the writer API is read back exactly.

E1: BFS over write-call histories (feature appends, logs, tables, metadata,
re-opening the writer in any mode) on the real RTDCWriter.
E3: every composition of N events into successive append calls, with and
without re-opening between calls, for several chunk configurations.
Oracle: in-memory model of everything passed in vs. dclab.new_dataset and raw
h5py on the closed file.
"""
import hashlib
import itertools
import os

import h5py
import numpy as np

from .. import explore, gen, par
from ..boot import STUB_VERSION
from ..runner import violation

PROPERTY = "C01"
LEVEL = "model_checking"
W = "dclab.rtdc_dataset.writer:RTDCWriter"
POOL = 40

LOGS = {
    "short": ["line 1", "line 2"],
    "unicode": ["Größe µm ✓ 漢"],
    "long": ["x" * 60 + "µ" * 45 + "END"],       # 153 bytes > 100
    "one": "a single string",
    # white space is content: trailing blanks / tab, blank-only line, indent
    "padded": ["col A    ", "tab\t", "   ", "  indented", "ideographic\u3000"],
}
META = {
    "m0": None,   # complete metadata (filled in fresh())
    "m1": {"experiment": {"sample": "second sample", "run index": "3"},
           "setup": {"channel width": 30, "medium": "water"}},
    "m2": {"user": {"my key": 4.5, "flag": True, "name": "peter"},
           "imaging": {"pixel size": "0.5", "frame rate": 3000}},
    # the recording software's own version string
    "sv": {"setup": {"software version": "ShapeIn 2.0.1"}},
}
# documented types of the keys used above
TYPES = {
    ("experiment", "date"): str, ("experiment", "event count"): int,
    ("experiment", "run index"): int, ("experiment", "sample"): str,
    ("experiment", "time"): str, ("experiment", "run identifier"): str,
    ("imaging", "flash device"): str, ("imaging", "flash duration"): float,
    ("imaging", "frame rate"): float, ("imaging", "pixel size"): float,
    ("imaging", "roi position x"): int, ("imaging", "roi position y"): int,
    ("imaging", "roi size x"): int, ("imaging", "roi size y"): int,
    ("setup", "channel width"): float, ("setup", "chip region"): str,
    ("setup", "flow rate"): float, ("setup", "flow rate sample"): float,
    ("setup", "flow rate sheath"): float, ("setup", "identifier"): str,
    ("setup", "medium"): str, ("setup", "module composition"): str,
    ("setup", "software version"): str, ("setup", "temperature"): float,
    ("fluorescence", "bit depth"): int, ("fluorescence", "channel count"): int,
    ("fluorescence", "channels installed"): int,
    ("fluorescence", "laser count"): int,
    ("fluorescence", "lasers installed"): int,
    ("fluorescence", "sample rate"): int,
    ("fluorescence", "samples per event"): int,
    ("fluorescence", "signal max"): float,
    ("fluorescence", "signal min"): float,
    ("fluorescence", "trace median"): int,
    ("fluorescence", "channel 1 name"): str,
    ("fluorescence", "laser 1 lambda"): float,
    ("fluorescence", "laser 1 power"): float,
}


def tables():
    t1 = np.rec.fromarrays([np.arange(4.0), np.arange(4.0) ** 2],
                           names=["time", "value"])
    t2 = {"alpha": [1.5, 2.5, np.nan], "beta": [3.0, -np.inf, 5.0]}
    t3 = np.rec.fromarrays([np.array([1, 2], dtype=np.int32),
                            np.array([0.5, 0.25], dtype=np.float32)],
                           names=["n", "x"])
    return {"rec": t1, "dict": t2, "mixed": t3}


def brand(old):
    chain = [v.strip() for v in (old or "").split("|") if v.strip()]
    cur = f"dclab {STUB_VERSION}"
    if not chain or chain[-1] != cur:
        chain.append(cur)
    return " | ".join(chain)


class St:
    pass


class WriterDriver(explore.Driver):
    name = "writer-history"

    def __init__(self, scratch, mode0="append", tiny_chunks=True, seed=0,
                 wsizes=(1, 3), full=True, only=None):
        self.scratch = scratch
        # restrict the features written by "W" (None: all of the pool)
        self.only = tuple(only) if only else None
        self.mode0 = mode0
        self.tiny = tiny_chunks
        self.seed = seed
        self.wsizes = wsizes
        self.full = full
        self._n = itertools.count()

    def config(self):
        c = {"mode0": self.mode0, "tiny_chunks": self.tiny,
             "seed": self.seed, "wsizes": list(self.wsizes)}
        if self.only:
            c["only"] = list(self.only)
        return c

    # ------------------------------------------------------------------
    def _open(self, st, mode):
        from dclab.rtdc_dataset.writer import RTDCWriter
        st.hw = RTDCWriter(st.path, mode=mode)
        st.mode = mode
        if mode == "reset":
            st.model = {"feats": {}, "logs": {}, "tables": {}, "meta": {}}

    def fresh(self):
        import os
        from dclab.rtdc_dataset import writer
        gen.register_user_features()
        st = St()
        st.path = self.scratch / f"c01_{os.getpid()}_{next(self._n)}.rtdc"
        if st.path.exists():
            st.path.unlink()
        st.pool = gen.make_events(POOL, seed=self.seed)
        # float32 image feature (separate writer path) and a scalar that is
        # stored from a python list
        rs = np.random.RandomState(self.seed + 77)
        st.pool["qpi_pha"] = rs.uniform(-3, 3, (POOL,) + gen.IMG_SHAPE
                                        ).astype(np.float32)
        st.next = 0
        st.model = {"feats": {}, "logs": {}, "tables": {}, "meta": {}}
        st.err = []
        st.metas = {}
        st.closed = False
        st.dump = None
        st.chunk_old = writer.CHUNK_SIZE_BYTES
        writer.CHUNK_SIZE_BYTES = 100 if self.tiny else 1024 ** 2
        self._open(st, self.mode0)
        return st

    def close(self, st):
        from dclab.rtdc_dataset import writer
        writer.CHUNK_SIZE_BYTES = st.chunk_old
        try:
            if not st.closed:
                st.hw.h5file.close()
        except Exception:
            pass
        if st.path.exists():
            st.path.unlink()

    def ops(self, st):
        out = []
        for k in self.wsizes:
            if st.next + k <= POOL:
                out.append((["W", k], 0))
        if not self.full:
            out.append((["REOPEN", "append"], 0))
            return out
        out += [(["LOG", "la", "short"], 0), (["LOG", "la", "unicode"], 0),
                (["LOG", "la", "long"], 1), (["LOG", "lb", "one"], 0),
                (["LOG", "lb", "padded"], 1),
                (["TABLE", "ta", "rec"], 0), (["TABLE", "ta", "dict"], 1),
                (["TABLE", "tb", "mixed"], 0),
                (["META", "m0"], 0), (["META", "m1"], 0), (["META", "m2"], 0),
                (["META", "sv"], 1),
                (["REOPEN", "append"], 0), (["REOPEN", "replace"], 0),
                (["REOPEN", "reset"], 1)]
        return out

    # ------------------------------------------------------------------
    def _model_meta(self, st, meta):
        m = st.model["meta"]
        sv_in = (meta.get("setup") or {}).get("software version")
        for sec, dd in meta.items():
            for k, v in dd.items():
                if sec == "user":
                    m[(sec, k)] = v
                else:
                    typ = TYPES[(sec, k)]
                    m[(sec, k)] = typ(float(v)) if typ is int else typ(v)
        m[("setup", "software version")] = brand(
            sv_in or st.model["meta"].get(("setup", "software version")))

    def apply(self, st, op):
        hw = st.hw
        kind = op[0]
        mdl = st.model
        try:
            if kind == "W":
                k = op[1]
                ev = gen.take(st.pool, st.next, st.next + k)
                if self.only:
                    ev = {f: d for f, d in ev.items() if f in self.only}
                # at odd offsets the traces go in one call per trace name
                split = bool(st.next % 2)
                st.next += k
                gen.store_events(hw, ev, split_trace=split)
                for feat, data in ev.items():
                    if st.mode == "replace" or feat not in mdl["feats"]:
                        if feat == "trace":
                            old = mdl["feats"].get("trace", {})
                            new = dict(old) if st.mode == "replace" else {}
                            new.update({t: [a] for t, a in data.items()})
                            mdl["feats"][feat] = new
                        else:
                            mdl["feats"][feat] = [data]
                    elif feat == "trace":
                        for t, a in data.items():
                            mdl["feats"][feat].setdefault(t, []).append(a)
                    else:
                        mdl["feats"][feat].append(data)
            elif kind == "LOG":
                _, name, var = op
                lines = LOGS[var]
                try:
                    hw.store_log(name, lines)
                finally:
                    pass
                ll = [lines] if isinstance(lines, str) else list(lines)
                if st.mode == "replace" or name not in mdl["logs"]:
                    mdl["logs"][name] = ll
                else:
                    mdl["logs"][name] = mdl["logs"][name] + ll
            elif kind == "TABLE":
                _, name, var = op
                tab = tables()[var]
                if name in mdl["tables"]:
                    # no documented way to overwrite/extend a table: the
                    # writer must either reject (file unchanged) or replace
                    try:
                        hw.store_table(name, tab)
                    except Exception:
                        return ("rejected",)
                    mdl["tables"][name] = var
                else:
                    hw.store_table(name, tab)
                    mdl["tables"][name] = var
            elif kind == "META":
                var = op[1]
                import copy
                # The same dictionary object is handed to the writer every
                # time (as a caller with a metadata template would do); the
                # model works from the pristine template.
                if var not in st.metas:
                    st.metas[var] = copy.deepcopy(META[var]) if META[var] \
                        is not None else gen.complete_meta(0, fl=True)
                pristine = copy.deepcopy(META[var]) if META[var] \
                    is not None else gen.complete_meta(0, fl=True)
                hw.store_metadata(st.metas[var])
                self._model_meta(st, pristine)
            elif kind == "REOPEN":
                n = self._count(st)
                hw.__exit__(None, None, None)
                self._model_close(st, n)
                self._open(st, op[1])
            else:
                raise ValueError(op)
        except Exception as e:
            st.err.append(f"{op}: {type(e).__name__}: {e}")
            return ("exc", type(e).__name__)
        return ("ok",)

    def _count(self, st):
        f = st.model["feats"]
        for feat in sorted(f):
            parts = f[feat]
            if feat == "trace":
                parts = parts[sorted(parts)[0]]
            return sum(len(p) for p in parts)
        return 0

    def _model_close(self, st, n):
        """What closing the writer adds: rectified metadata, version brand."""
        m = st.model["meta"]
        if n:
            have = st.model["feats"]
            m[("experiment", "event count")] = n
            if "trace" in have:
                m[("fluorescence", "samples per event")] = gen.TRACE_LEN
            if "fl1_max" in have:
                m.setdefault(("fluorescence", "channel count"), 1)
            if "image" in have or "mask" in have:
                m[("imaging", "roi size x")] = gen.IMG_SHAPE[1]
                m[("imaging", "roi size y")] = gen.IMG_SHAPE[0]
        m[("setup", "software version")] = brand(
            m.get(("setup", "software version")))

    # ------------------------------------------------------------------
    def check(self, st):
        out = []

        def bad(where, symptom, detail, **tags):
            out.append(violation(where, symptom, None, detail, tags))
        for e in st.err:
            bad(W, "exception", e, exc=e.split(": ")[1])
        if st.err:
            return out
        n = self._count(st)
        try:
            gs = tuple(sorted((g.name, v)
                              for g, v in st.hw._group_sizes.items()))
        except Exception:
            gs = None
        st.gs = gs
        st.hw.__exit__(None, None, None)
        st.closed = True
        self._model_close(st, n)
        mdl = st.model
        exp = {}
        for feat, parts in mdl["feats"].items():
            if feat == "trace":
                exp[feat] = {t: np.concatenate(p) for t, p in parts.items()}
            elif feat == "contour":
                exp[feat] = [c for p in parts for c in p]
            else:
                exp[feat] = np.concatenate(parts)
        if "index" in exp:
            exp["index"] = np.arange(1, n + 1)
        # ---- raw h5py ----
        with h5py.File(st.path, "r") as h5:
            st.dump = dump_h5(h5)
            evg = h5.get("events", {})
            if sorted(evg.keys()) != sorted(exp.keys()):
                bad(W + ".store_feature", "wrong-feature-set",
                    f"{sorted(evg.keys())} != {sorted(exp.keys())}")
            for feat, e in exp.items():
                if feat not in evg:
                    continue
                if feat == "trace":
                    for t, a in e.items():
                        if t not in evg[feat] or not gen.arrays_equal(
                                evg[feat][t][:], a):
                            bad(W + ".write_ndarray", "wrong-data-h5py",
                                f"trace/{t}", feat="trace")
                elif feat == "contour":
                    got = evg[feat]
                    if len(got) != len(e) or any(
                            str(i) not in got or not gen.arrays_equal(
                                got[str(i)][:], c) for i, c in enumerate(e)):
                        bad(W + ".write_ragged", "wrong-data-h5py",
                            f"contour: stored keys {sorted(got.keys())} for "
                            f"{len(e)} events", feat="contour")
                else:
                    got = evg[feat][:]
                    want = e
                    if feat == "mask":
                        # any non-zero encoding of True is acceptable
                        got = got > 0
                    if not gen.arrays_equal(got, want):
                        bad(W + ".write_ndarray", "wrong-data-h5py",
                            f"{feat}: got {np.asarray(got).tolist()!r:.300} "
                            f"want {np.asarray(want).tolist()!r:.300}",
                            feat=feat)
                    # integer-typed features stay integer typed
                    kind = {"fl1_max": "ui", "index": "ui", "frame": "ui",
                            "image": "ui", "deform": "f"}.get(feat)
                    if kind and evg[feat].dtype.kind not in kind:
                        bad(W + ".store_feature", "wrong-dtype",
                            f"{feat}: {evg[feat].dtype} is not of kind "
                            f"{kind}", feat=feat)
            for name, lines in mdl["logs"].items():
                if name not in h5.get("logs", {}):
                    bad(W + ".write_text", "log-missing", name)
                    continue
                got = [li.decode("utf-8", errors="replace")
                       if isinstance(li, bytes) else li
                       for li in h5["logs"][name][:]]
                if got != lines:
                    longer = any(len(li.encode()) > 100 for li in lines)
                    bad(W + ".write_text", "wrong-log-lines",
                        f"log {name}: got {got!r:.300} want {lines!r:.300}",
                        long_line=longer)
            if sorted(h5.get("logs", {}).keys()) != sorted(mdl["logs"]):
                bad(W + ".write_text", "wrong-log-set",
                    f"{sorted(h5.get('logs', {}).keys())}")
            tabs = tables()
            for name, var in mdl["tables"].items():
                if name not in h5.get("tables", {}):
                    bad(W + ".store_table", "table-missing", name)
                    continue
                got = h5["tables"][name]
                want = tabs[var]
                if isinstance(want, dict):
                    cols = list(want.keys())
                    ok = list(got.dtype.names) == cols and all(
                        # a dict becomes an (n, 1) compound array; cells count
                        gen.arrays_equal(np.ravel(got[c]),
                                         np.array(want[c], float))
                        for c in cols)
                else:
                    ok = list(got.dtype.names) == list(
                        want.dtype.names) and all(
                        gen.arrays_equal(got[c], want[c])
                        and got[c].dtype == want[c].dtype
                        for c in want.dtype.names)
                if not ok:
                    bad(W + ".store_table", "wrong-table", f"{name} {var}")
            if sorted(h5.get("tables", {}).keys()) != sorted(mdl["tables"]):
                bad(W + ".store_table", "wrong-table-set", "")
            for (sec, k), v in mdl["meta"].items():
                got = h5.attrs.get(f"{sec}:{k}")
                if isinstance(got, bytes):
                    got = got.decode()
                if got is None or not _meta_eq(got, v):
                    bad(W + ".store_metadata", "wrong-metadata-h5py",
                        f"{sec}:{k}: got {got!r} want {v!r}", key=f"{sec}:{k}")
        # ---- through dclab ----
        if n:
            import dclab
            try:
                with dclab.new_dataset(st.path) as ds:
                    if len(ds) != n:
                        bad(W, "wrong-length", f"len(ds)={len(ds)} != {n}")
                    ec = ds.config["experiment"].get("event count")
                    if ec != n:
                        bad(W + ".rectify_metadata", "wrong-event-count",
                            f"{ec} != {n}")
                    innate = set(ds.features_innate)
                    for feat, e in exp.items():
                        if feat not in innate:
                            bad(W, "feature-not-readable", feat, feat=feat)
                            continue
                        if feat == "trace":
                            ok = all(gen.arrays_equal(ds[feat][t][:], a)
                                     for t, a in e.items()) and sorted(
                                ds[feat].keys()) == sorted(e.keys())
                        elif feat == "contour":
                            ok = len(ds[feat]) == len(e) and all(
                                gen.arrays_equal(ds[feat][i], c)
                                for i, c in enumerate(e))
                        elif feat == "mask":
                            ok = gen.arrays_equal(ds[feat][:], e) and \
                                ds[feat][0].dtype == bool
                        else:
                            ok = gen.arrays_equal(ds[feat][:], e)
                        if not ok:
                            bad(W, "wrong-data-dclab", feat, feat=feat)
                        # lazy readers: negative index, slices, single event
                        try:
                            if feat == "contour":
                                ok2 = gen.arrays_equal(ds[feat][-1], e[-1]) \
                                    and all(gen.arrays_equal(a, b) for a, b in
                                            zip(ds[feat][n // 2:], e[n // 2:]))
                            elif feat == "trace":
                                t0 = sorted(e)[0]
                                ok2 = gen.arrays_equal(ds[feat][t0][n - 1],
                                                       e[t0][n - 1]) and \
                                    gen.arrays_equal(ds[feat][t0][:n // 2],
                                                     e[t0][:n // 2])
                            else:
                                ok2 = gen.arrays_equal(ds[feat][n - 1],
                                                       e[n - 1]) and \
                                    gen.arrays_equal(ds[feat][n // 2:],
                                                     e[n // 2:]) and \
                                    len(ds[feat]) == n
                        except Exception as ex:
                            ok2 = False
                            bad(W, "exception", f"reading {feat}: "
                                f"{type(ex).__name__}: {ex}",
                                exc=type(ex).__name__, feat=feat)
                        if not ok2:
                            bad("dclab.rtdc_dataset.fmt_hdf5.events",
                                "wrong-data-lazy-access",
                                f"{feat}: index / slice access differs",
                                feat=feat)
                        # what the feature object says about itself, the
                        # whole-array conversion and event-wise iteration
                        try:
                            if feat == "trace":
                                t0 = sorted(e)[0]
                                obj, ee = ds[feat][t0], np.asarray(e[t0])
                            elif feat == "contour":
                                obj, ee = None, None
                                ok3 = all(gen.arrays_equal(a, b) for a, b
                                          in zip(ds[feat], e)) and \
                                    len(list(ds[feat])) == len(e)
                            else:
                                obj, ee = ds[feat], np.asarray(e)
                            if obj is not None:
                                ok3 = tuple(obj.shape) == ee.shape \
                                    and len(obj) == len(ee) \
                                    and gen.arrays_equal(
                                        np.asarray(obj), ee) \
                                    and len(list(obj)) == len(ee) \
                                    and all(gen.arrays_equal(a, b)
                                            for a, b in zip(obj, ee)) \
                                    and np.asarray(obj[:]).dtype == np.dtype(
                                        obj.dtype)
                        except Exception as ex:
                            ok3 = False
                            bad(W, "exception", f"describing {feat}: "
                                f"{type(ex).__name__}: {ex}",
                                exc=type(ex).__name__, feat=feat)
                        if not ok3:
                            bad("dclab.rtdc_dataset.fmt_hdf5.events",
                                "wrong-data-lazy-access",
                                f"{feat}: shape / len / whole-array "
                                f"conversion / iteration differs",
                                feat=feat, how="describe")
                    for name, lines in mdl["logs"].items():
                        if name not in ds.logs or ds.logs[name] != lines:
                            longer = any(len(li.encode()) > 100
                                         for li in lines)
                            bad(W + ".write_text", "wrong-log-dclab",
                                f"{name}: "
                                f"{ds.logs[name] if name in ds.logs else None}"
                                f" != {lines}", long_line=longer)
                    tabs_ = tables()
                    for name, var in mdl["tables"].items():
                        if name not in ds.tables:
                            bad(W + ".store_table", "table-missing-dclab",
                                name)
                            continue
                        # every cell through the dataset's own table access
                        got = ds.tables[name]
                        want = tabs_[var]
                        cols = list(want.keys()) if isinstance(want, dict) \
                            else list(want.dtype.names)
                        try:
                            ok = list(got.dtype.names) == cols and all(
                                gen.arrays_equal(
                                    np.ravel(np.asarray(got[c])),
                                    np.ravel(np.asarray(want[c], float)))
                                for c in cols) and all(
                                gen.arrays_equal(
                                    np.ravel(np.asarray(got[:][c])),
                                    np.ravel(np.asarray(want[c], float)))
                                for c in cols)
                        except Exception as ex:
                            ok = False
                            bad(W + ".store_table", "exception",
                                f"ds.tables[{name!r}]: "
                                f"{type(ex).__name__}: {ex}",
                                exc=type(ex).__name__)
                        if not ok:
                            bad(W + ".store_table", "wrong-table-dclab",
                                f"{name} {var}")
                    if sorted(ds.tables.keys()) != sorted(mdl["tables"]) \
                            or len(ds.tables) != len(mdl["tables"]):
                        bad(W + ".store_table", "wrong-table-set-dclab",
                            f"{sorted(ds.tables.keys())}")
                    if len(ds.logs) != len(mdl["logs"]) or sorted(
                            ds.logs.keys()) != sorted(mdl["logs"]):
                        bad(W + ".write_text", "wrong-log-set-dclab",
                            f"{sorted(ds.logs.keys())}")
                    for (sec, k), v in mdl["meta"].items():
                        got = ds.config[sec].get(k)
                        typ = TYPES.get((sec, k))
                        if got is None or not _meta_eq(got, v) or (
                                typ and not _is_type(got, typ)):
                            bad(W + ".store_metadata", "wrong-metadata-dclab",
                                f"{sec}:{k}: got {got!r} ({type(got).__name__}"
                                f") want {v!r}", key=f"{sec}:{k}")
            except Exception as e:
                bad(W, "not-loadable", f"{type(e).__name__}: {e}",
                    exc=type(e).__name__)
        return out

    def canon(self, st):
        if st.dump is None:
            # canon is only meaningful after check(); keep states apart
            return ("unchecked", explore.unique_token())
        return (st.dump, st.mode, st.gs, st.next)


def _meta_eq(a, b):
    if isinstance(b, str) or isinstance(a, str):
        return str(a) == str(b)
    try:
        return float(a) == float(b)
    except Exception:
        return a == b


def _is_type(v, typ):
    if typ is int:
        return isinstance(v, (int, np.integer)) and not isinstance(v, bool)
    if typ is float:
        return isinstance(v, (float, np.floating))
    return isinstance(v, str)


def dump_h5(h5):
    """Canonical digest of a file: names, shapes, dtypes, attrs, data."""
    hh = hashlib.sha1()

    def attrs(o):
        for k in sorted(o.attrs.keys()):
            hh.update(repr((k, np.asarray(o.attrs[k]).tolist())).encode())

    def visit(name, obj):
        hh.update(name.encode())
        attrs(obj)
        if isinstance(obj, h5py.Dataset):
            hh.update(repr((obj.shape, str(obj.dtype), obj.chunks)).encode())
            if obj.shape and obj.shape[0]:
                hh.update(np.asarray(obj[...]).tobytes())
    attrs(h5)
    h5.visititems(visit)
    return hh.hexdigest()


# -- E3: compositions ---------------------------------------------------------

def compositions(n, maxparts=None):
    """All ordered compositions of n (optionally with at most maxparts)."""
    if n == 0:
        yield ()
        return
    for first in range(1, n + 1):
        if maxparts == 1 and first != n:
            continue
        for rest in compositions(n - first,
                                 None if maxparts is None else maxparts - 1):
            yield (first,) + rest


def comp_histories(ctx):
    hs = []
    nmax = 7 if ctx.quick else 12
    for n in range(1, nmax + 1):
        for comp in compositions(n):
            hs.append(comp)
    big = (10, 11, 21) if ctx.quick else range(nmax + 1, 24)
    for n in big:
        for comp in compositions(n, maxparts=3):
            hs.append(comp)
    return hs


def _comp_case(args):
    comp, reopen, mode, tiny, seed, scratch = args[:6]
    only = args[6] if len(args) > 6 else None
    drv = WriterDriver(scratch, mode0=mode, tiny_chunks=tiny, seed=seed,
                       only=only)
    hist = []
    for i, p in enumerate(comp):
        if i and reopen:
            hist.append(["REOPEN", mode])
        hist.append(["W", p])
    st, _, viols = explore.run_history(drv, hist)
    drv.close(st)
    for v in viols:
        v["case"] = {"driver": drv.name, "config": drv.config(),
                     "history": hist}
    crosses = any(p >= 10 for p in comp) and tiny
    return len(hist), crosses, viols


def _dtype_replace_case(args):
    """A finished file whose scalar features were recorded in a narrower
    type (float32 / int32 data written first) is re-opened in replace or
    reset mode and the features are written again as float64 / int64 with
    values the narrow type cannot hold: the new values are read back
    exactly, for every pair of old and new event counts 1..3 x 1..3."""
    scratch, = args
    import dclab
    from dclab.rtdc_dataset.writer import RTDCWriter
    W_ = "dclab.rtdc_dataset.writer:RTDCWriter.store_feature"
    out = []
    cnt = 0
    path = scratch / f"c01_dtype_{os.getpid()}.rtdc"
    wide = {"deform": np.array([1e-300, 0.1, 1.7e300]),
            "area_um": np.array([1 / 3, 16777217.0, 2.5e-50]),
            "frame": np.array([2 ** 40 + 1, 3, 2 ** 33], dtype=np.int64)}
    narrow = {"deform": np.array([0.5, 0.25, 0.125, 0.75], np.float32),
              "area_um": np.array([1.5, 2.5, 3.5, 4.5], np.float32),
              "frame": np.array([1, 2, 3, 4], np.int32)}
    for mode in ("replace", "reset"):
        for n_old in (1, 2, 4):
            for n_new in (1, 2, 3):
                cnt += 1
                case = {"kind": "dtype-replace", "mode": mode,
                        "n_old": n_old, "n_new": n_new}
                try:
                    with RTDCWriter(path, mode="reset") as hw:
                        hw.store_metadata(gen.complete_meta(n_old, fl=False))
                        for f, a in narrow.items():
                            hw.store_feature(f, a[:n_old])
                    with RTDCWriter(path, mode=mode) as hw:
                        if mode == "reset":
                            hw.store_metadata(gen.complete_meta(n_new,
                                                                fl=False))
                        for f, a in wide.items():
                            hw.store_feature(f, a[:n_new])
                    with dclab.new_dataset(path) as ds:
                        for f, a in wide.items():
                            got = np.asarray(ds[f][:])
                            want = a[:n_new]
                            if len(got) != n_new or not np.array_equal(
                                    got.astype(np.float64)
                                    if f != "frame" else got.astype(np.int64),
                                    want):
                                out.append(violation(
                                    W_, "wrong-data-dclab", case,
                                    f"{f} written as {a.dtype} in {mode} "
                                    f"mode over a {narrow[f].dtype} "
                                    f"recording: read {got.tolist()} "
                                    f"({got.dtype}), written "
                                    f"{want.tolist()}",
                                    {"feat": f, "mode": mode,
                                     "history": "narrower-dtype-first"}))
                        if len(ds) != n_new:
                            out.append(violation(
                                W_, "wrong-length", case,
                                f"{len(ds)} events, {n_new} written",
                                {"mode": mode,
                                 "history": "narrower-dtype-first"}))
                except Exception as e:
                    out.append(violation(
                        W_, "exception", case, f"{type(e).__name__}: {e}",
                        {"exc": type(e).__name__, "mode": mode,
                         "history": "narrower-dtype-first"}))
    if path.exists():
        path.unlink()
    return cnt, out


def run(ctx):
    scratch = ctx.scratch
    viols = []
    parts = []
    depth = 3 if ctx.quick else 4
    for mode0, tiny in (("append", True), ("replace", True)) if ctx.quick \
            else (("append", True), ("replace", True), ("append", False)):
        drv = WriterDriver(scratch, mode0=mode0, tiny_chunks=tiny,
                           seed=ctx.seed)
        stats, vs = explore.bfs(drv, max_depth=depth, max_dev=1, log=ctx.log)
        parts.append((f"{mode0}-{'tiny' if tiny else '1MiB'}", stats))
        viols.extend(vs)
    cov = explore.merge_stats(parts)
    dcnt, dvs = par.pmap(_dtype_replace_case, [(scratch,)])[0]
    viols.extend(dvs)
    cov["dtype_replace_cases"] = dcnt
    # compositions
    items = []
    for comp in comp_histories(ctx):
        for reopen in (False, True):
            if reopen and len(comp) == 1:
                continue
            for mode, tiny in (("append", True), ("append", False),
                               ("replace", True)):
                if mode == "replace" and (len(comp) > 3 or not reopen):
                    continue
                if not tiny and (len(comp) > 4 and ctx.quick):
                    continue
                items.append((comp, reopen, mode, tiny, ctx.seed, scratch))
    # every non-empty subset of six feature kinds written on its own (the
    # file then lacks the features the writer may lean on for bookkeeping)
    kinds = ("contour", "deform", "fl1_max", "image", "mask", "trace")
    nsub = 0
    for r in range(1, len(kinds) + 1):
        for sub in itertools.combinations(kinds, r):
            for comp in ((3,), (2, 3), (1, 1, 2), (11,)):
                for reopen in (False, True):
                    if reopen and len(comp) == 1:
                        continue
                    items.append((comp, reopen, "append", True, ctx.seed,
                                  scratch, sub))
                    nsub += 1
    res = par.pmap(_comp_case, items)
    ncross = 0
    for nh, crosses, vs in res:
        ncross += bool(crosses)
        viols.extend(vs)
    cov["composition_cases"] = len(items)
    cov["composition_cases_with_full_chunk"] = ncross
    cov["feature_subset_cases"] = nsub
    cov["composition_samples"] = [list(items[i][0]) for i in
                                  (0, len(items) // 2, len(items) - 1)]
    cov["traces_validated_against_impl"] += len(items)
    cov["rule"] = ("BFS over writer call histories (append k events to 11 "
                   "feature kinds, logs, tables, metadata, re-open in "
                   "append/replace/reset); plus every composition of N "
                   "events into successive appends (N<=8 quick/12 thorough, "
                   "<=3 parts up to N=23) x re-open x chunk configuration")
    # one large input (30000 events) through this property's entry points
    from .. import big
    viols = list(viols) + big.violations("C01", ctx.scratch)
    cov["big_input_events"] = big.N
    return {"level": LEVEL, "coverage": cov, "violations": viols,
            "vacuous": None if cov["states"] > 50 else "too few states",
            "assumptions": [
                "one input dtype per feature",
                "files up to 23 events; 10-event and 1 MiB chunk configs",
                "a table name that already exists: the writer may reject "
                "(file unchanged) or replace"]}


def replay(case, ctx):
    if case.get("kind") == "dtype-replace":
        return [v for v in _dtype_replace_case((ctx.scratch,))[1]
                if v["case"] == case]
    if case.get("kind") == "big":
        from .. import big
        return big.violations("C01", ctx.scratch)
    c = case["config"]
    drv = WriterDriver(ctx.scratch, mode0=c["mode0"],
                       tiny_chunks=c["tiny_chunks"], seed=c["seed"],
                       wsizes=tuple(c["wsizes"]), only=c.get("only"))
    st, _, viols = explore.run_history(drv, case["history"])
    drv.close(st)
    for v in viols:
        v["case"] = case
    return viols
