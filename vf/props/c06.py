"""C06 -- computed (ancillary) features reflect the current data and settings.

E1: BFS over histories of configuration edits and feature reads on a
long-lived dataset; in every state every watched feature is compared with a
*freshly constructed* dataset holding the same data and the final
configuration (availability and values / exception class).
Plus E3: all present/absent combinations of the emodulus keys x temp feature.
"""
import itertools

import numpy as np

from .. import explore, gen, lut, par
from ..runner import violation

PROPERTY = "C06"
LEVEL = "model_checking"
CORE = "dclab.rtdc_dataset.core:RTDCBase"

TMPF = "vf_tmp_c06"
PLUG = "vf_plug_c06"


def _plug_method(ds):
    return {PLUG: 2.0 * np.asarray(ds["area_um"]) + 1.0}


def register_plugin():
    """A plugin feature that depends on another (possibly computed)
    feature: a two-stage cache chain."""
    from dclab.rtdc_dataset.feat_anc_plugin import PlugInFeature
    from dclab.rtdc_dataset.feat_anc_core import AncillaryFeature
    if PLUG not in AncillaryFeature.feature_names:
        PlugInFeature(PLUG, {"method": _plug_method,
                             "feature names": [PLUG],
                             "features required": ["area_um"],
                             "scalar feature": [True], "version": "1"})

EMOD_DATA = {
    "area_cvx": np.array([350.0, 700.0, 1040.0, 1730.0, 2420.0, 4300.0]),
    "area_um": np.array([40.0, 80.0, 120.0, 200.0, 280.0, 500.0]),
    "deform": np.array([0.02, 0.05, 0.08, 0.12, 0.14, 0.05]),
    "temp": np.array([22.0, 23.0, 24.0, 25.0, 26.0, 23.5]),
    "frame": np.array([10, 20, 35, 50, 70, 100]),
}
CTC_DATA = {
    "fl1_max": np.array([100.0, 200.0, 50.0, 10.0, 400.0]),
    "fl2_max": np.array([20.0, 150.0, 60.0, 300.0, 5.0]),
    "fl3_max": np.array([5.0, 15.0, 160.0, 30.0, 90.0]),
    "deform": np.array([0.02, 0.05, 0.08, 0.12, 0.14]),
}

def image_data():
    rs = np.random.RandomState(4)
    n = 4
    img = rs.randint(0, 255, (n, 10, 12)).astype(np.uint8)
    bg = rs.randint(0, 255, (n, 10, 12)).astype(np.uint8)
    mask = np.zeros((n, 10, 12), bool)
    for i in range(n):
        mask[i, 2:6 + i % 2, 3:8 + i % 3] = True
        mask[i, 6, 4] = True
    return {"image": img, "image_bg": bg, "mask": mask,
            "pos_x": np.array([20.0, 21.0, 22.5, 19.0]),
            "pos_y": np.array([5.0, 5.5, 6.0, 5.2]),
            "deform": np.array([0.02, 0.05, 0.08, 0.12])}


ML_DATA = {"deform": np.array([0.02, 0.05, 0.08, 0.12]),
           "ml_score_abc": np.array([0.1, 0.9, 0.5, 0.0]),
           "ml_score_xyz": np.array([0.8, 0.2, 0.5, 0.0])}
ML_NEW = {0: np.array([0.95, 0.1, 0.6, 0.3]), 1: np.array([0.0, 0.95, 0.1, 0.2])}
BGOFF = {0: np.array([1.0, 2.0, 3.0, 4.0]), 1: np.array([10.0, 0.0, -5.0, 2.5])}

SCENARIOS = {
    "image": {},
    "ml": {},
    # documented base scenarios for emodulus
    "A": {"calculation": {"emodulus lut": "VF-LUT-A",
                          "emodulus medium": "CellCarrier",
                          "emodulus viscosity model": "buyukurganci-2022"}},
    "B": {"calculation": {"emodulus lut": "VF-LUT-A",
                          "emodulus viscosity": 5.0}},
    "C": {"calculation": {"emodulus lut": "VF-LUT-A",
                          "emodulus medium": "CellCarrier",
                          "emodulus temperature": 23.0,
                          "emodulus viscosity model": "buyukurganci-2022"}},
    # mixed start states (reached from the documented ones by two edits)
    "BC": {"calculation": {"emodulus lut": "VF-LUT-A",
                           "emodulus medium": "other",
                           "emodulus temperature": 23.0,
                           "emodulus viscosity": 5.0,
                           "emodulus viscosity model": "buyukurganci-2022"}},
    "ctc2x": {"calculation": {"crosstalk fl12": 0.1, "crosstalk fl21": 0.2,
                              "crosstalk fl13": 0.05, "crosstalk fl31": 0.1}},
    "ctc2": {"calculation": {"crosstalk fl12": 0.1, "crosstalk fl21": 0.2}},
    "ctc3": {"calculation": {"crosstalk fl12": 0.1, "crosstalk fl21": 0.2,
                             "crosstalk fl13": 0.05, "crosstalk fl31": 0.1,
                             "crosstalk fl23": 0.15, "crosstalk fl32": 0.1}},
}
BASE_CFG = {"imaging": {"pixel size": 0.34, "frame rate": 1000.0},
            "setup": {"flow rate": 0.04, "channel width": 20.0,
                      "chip region": "channel"}}

EMOD_EDITS = [
    ("calculation", "emodulus lut", ["VF-LUT-B"], 0),
    ("calculation", "emodulus medium", ["water", "other"], 0),
    ("calculation", "emodulus temperature", [22.0, 24.0], 0),
    ("calculation", "emodulus viscosity", [5.0, 10.0], 0),
    ("calculation", "emodulus viscosity model",
     ["herold-2017", "buyukurganci-2022"], 1),
    ("imaging", "pixel size", [0.5], 0),
    ("imaging", "frame rate", [2000.0], 1),
    ("setup", "flow rate", [0.16], 0),
    ("setup", "channel width", [30.0], 0),
    ("setup", "chip region", ["reservoir"], 1),
]
CTC_EDITS = [("calculation", f"crosstalk fl{i}{j}", [0.1, 0.3], 0)
             for i in (1, 2, 3) for j in (1, 2, 3) if i != j]


class St:
    pass


class AncDriver(explore.Driver):
    name = "ancillary-history"
    canon_after_check = False   # check() reads features and fills caches

    def __init__(self, scratch, family="emod", scenario="C", with_temp=True,
                 area="stored", nfl=3, child=False):
        self.scratch = scratch
        self.family = family
        self.scenario = scenario
        self.with_temp = with_temp
        self.area = area
        self.nfl = nfl
        self.child = child
        if family == "emod":
            self.watch = ["emodulus", PLUG, "time", "area_um"]
            self.edits = EMOD_EDITS
        elif family == "image":
            self.watch = ["volume", "bright_avg", "bright_bc_avg",
                          "bright_perc_10", "bright_perc_90",
                          "inert_ratio_cvx", "inert_ratio_prnc", "tilt"]
            self.edits = [("imaging", "pixel size", [0.5], 0)]
        elif family == "ml":
            self.watch = ["ml_class"]
            self.edits = []
        else:
            self.watch = ["fl1_max_ctc", "fl2_max_ctc", "fl3_max_ctc"]
            self.edits = CTC_EDITS

    def config(self):
        return {"family": self.family, "scenario": self.scenario,
                "with_temp": self.with_temp, "area": self.area,
                "nfl": self.nfl, "child": self.child}

    def data(self):
        if self.family == "image":
            return image_data()
        if self.family == "ml":
            return {k: v.copy() for k, v in ML_DATA.items()}
        if self.family == "emod":
            d = {k: v.copy() for k, v in EMOD_DATA.items()}
            if not self.with_temp:
                d.pop("temp")
            d.pop("area_cvx" if self.area == "stored" else "area_um")
            return d
        d = {k: v.copy() for k, v in CTC_DATA.items()}
        for ch in (1, 2, 3):
            if ch > self.nfl:
                d.pop(f"fl{ch}_max")
        return d

    def _new(self, cfg, tmp, shadow=None):
        import dclab
        ds = dclab.new_dataset(self.data())
        for sec, dd in cfg.items():
            for k, v in dd.items():
                ds.config[sec][k] = v
        if tmp is not None:
            dclab.set_temporary_feature(ds, TMPF, tmp)
        for feat, data in (shadow or {}).items():
            dclab.set_temporary_feature(ds, feat, data)
        return ds

    def fresh(self):
        import dclab
        from dclab.definitions import feat_logic
        lut.register(self.scratch)
        register_plugin()
        if not feat_logic.feature_exists(TMPF):
            dclab.register_temporary_feature(TMPF)
        st = St()
        st.cfg = {s: dict(d) for s, d in BASE_CFG.items()}
        st.cfg["calculation"] = {}
        for sec, dd in SCENARIOS[self.scenario].items():
            st.cfg.setdefault(sec, {}).update(dd)
        st.tmp = None
        st.shadow = {}
        st.ds = self._new(st.cfg, None)
        st.child = dclab.new_dataset(st.ds) if self.child else None
        st.err = None
        st.last_edit = None
        return st

    def ops(self, st):
        out = []
        for sec, key, vals, dev in self.edits:
            cur = st.cfg.get(sec, {}).get(key)
            for v in vals:
                if cur != v:
                    out.append((["set", sec, key, v], dev))
            if cur is not None and sec == "calculation":
                out.append((["del", sec, key], dev))
        for f in self.watch:
            out.append((["read", f], 0))
            out.append((["avail", f], 1))
        out.append((["tmp", 0], 1))
        out.append((["tmp", 1], 1))
        if self.family == "image":
            for v in (0, 1):
                out.append((["shadow", "bg_off", v], 0))
        if self.family == "ml":
            for v in (0, 1):
                out.append((["shadow", "ml_score_zzz", v], 0))
        if self.family == "emod":
            # a temporary feature may shadow a feature other computed
            # features depend on
            for feat in ("deform", "area_um"):
                for v in (0, 1):
                    out.append((["shadow", feat, v], 1))
            if not self.with_temp:
                # ... or provide one that was missing: the temperature
                # feature makes recipes available that were not before
                for v in (0, 1):
                    out.append((["shadow", "temp", v], 1))
        if self.child:
            out.append((["refresh"], 0))
        return out

    def apply(self, st, op):
        kind = op[0]
        ds = st.ds
        st.err = None
        try:
            if kind == "set":
                _, sec, key, v = op
                ds.config[sec][key] = v
                st.cfg.setdefault(sec, {})[key] = v
                st.last_edit = key
            elif kind == "del":
                _, sec, key = op
                ds.config[sec].pop(key)
                st.cfg[sec].pop(key)
                st.last_edit = key
            elif kind == "read":
                st.read_log = getattr(st, "read_log", []) + [op[1]]
                if st.child is not None:
                    # also through the child (fills the child's own cache)
                    try:
                        np.asarray(st.child[op[1]])
                    except BaseException:
                        pass
                try:
                    return ("val", np.asarray(ds[op[1]]).tobytes())
                except BaseException as e:
                    return ("exc", type(e).__name__)
            elif kind == "avail":
                return ("avail", op[1] in ds)
            elif kind == "tmp":
                import dclab
                n = len(ds)
                st.tmp = np.arange(n) * 1.5 + 100 * op[1]
                dclab.set_temporary_feature(ds, TMPF, st.tmp)
            elif kind == "shadow":
                import dclab
                _, feat, v = op
                if feat == "bg_off":
                    data = BGOFF[v]
                elif feat.startswith("ml_score"):
                    data = ML_NEW[v]
                else:
                    data = EMOD_DATA[feat] * (1.1 + 0.2 * v)
                st.shadow[feat] = data
                dclab.set_temporary_feature(ds, feat, data)
                st.last_edit = f"shadow {feat}"
            elif kind == "refresh":
                st.child.rejuvenate()
            else:
                raise ValueError(op)
        except Exception as e:
            st.err = f"{op}: {type(e).__name__}: {e}"
            return ("exc", type(e).__name__)
        return ("ok",)

    @staticmethod
    def _observe(ds, feat):
        try:
            avail = feat in ds
        except BaseException as e:
            avail = f"exc:{type(e).__name__}"
        try:
            val = np.array(ds[feat], dtype=float)
            res = ("val", val)
        except BaseException as e:
            res = ("exc", type(e).__name__, str(e)[:200])
        return avail, res

    def check(self, st):
        out = []

        def bad(symptom, detail, **tags):
            out.append(violation(CORE + ".__getitem__", symptom, None,
                                 detail, tags))
        if st.err:
            bad("exception", st.err, exc=st.err.split(": ")[1])
            return out
        ref = self._new(st.cfg, st.tmp, st.shadow)
        targets = [("live", st.ds)]
        if self.child:
            st.child.rejuvenate()
            targets.append(("child", st.child))
        feats = self.watch + ([TMPF] if st.tmp is not None else [])
        # Features that the history read explicitly come first, latest
        # first: features computed together (siblings of one method) are
        # stored under the hash of the one that was asked for, so a sweep
        # in a fixed order can refresh a stale sibling before looking at it
        first = []
        for f in reversed(getattr(st, "read_log", [])):
            if f in feats and f not in first:
                first.append(f)
        feats = first + [f for f in feats if f not in first]
        for feat in feats:
            ra, rr = self._observe(ref, feat)
            for name, ds in targets:
                la, lr = self._observe(ds, feat)
                tg = {"feat": feat, "on": name}
                desc = f"{feat} on {name} dataset, cfg={st.cfg}"
                if la != ra:
                    bad("availability-differs-from-fresh",
                        f"{desc}: live {la} fresh {ra}", **tg)
                if lr[0] != rr[0]:
                    bad("read-outcome-differs-from-fresh",
                        f"{desc}: live {lr[:2]} fresh {rr[:2]}", **tg)
                elif lr[0] == "val":
                    if lr[1].shape != rr[1].shape or not np.array_equal(
                            lr[1], rr[1], equal_nan=True):
                        bad("stale-value",
                            f"{desc}: live {lr[1]} fresh {rr[1]} "
                            f"(last edit: {st.last_edit})",
                            last_edit=st.last_edit, **tg)
                elif lr[1] != rr[1]:
                    bad("read-outcome-differs-from-fresh",
                        f"{desc}: live {lr[1]} fresh {rr[1]}", **tg)
                if name == "live":
                    if la is True and lr[0] == "exc":
                        bad("available-but-read-raises",
                            f"{desc}: {lr[1]}: {lr[2]}", exc=lr[1],
                            recipe=self._recipe(st), **tg)
                    if la is False and lr[0] == "val":
                        bad("readable-but-unavailable", desc, **tg)
            if feat == "emodulus" and rr[0] == "val":
                exp = self._emod_by_precedence(st)
                if exp is None:
                    bad("emodulus-precedence", f"read succeeds although no "
                        f"documented scenario applies: cfg={st.cfg}",
                        feat=feat)
                elif not np.allclose(exp, rr[1], rtol=1e-12, atol=0,
                                     equal_nan=True):
                    bad("emodulus-precedence",
                        f"cfg={st.cfg}: got {rr[1]} expected {exp} by the "
                        f"documented precedence", feat=feat)
        return out

    def blocking(self, viol):
        # availability mismatches are recorded findings (pinned by dclab's
        # own tests); staleness behind them must still be explored
        return viol["symptom"] != "available-but-read-raises"

    def _recipe(self, st):
        if self.family != "emod":
            return "ctc"
        c = st.cfg.get("calculation", {})
        med = str(c.get("emodulus medium", "other")).lower()
        return ("visc+known-medium" if "emodulus viscosity" in c
                and med != "other" else
                "unknown-medium" if med == "other" else "other")

    def _emod_by_precedence(self, st):
        """Documented scenarios: C (medium+temperature) beats A (medium+temp
        feature); B = global viscosity."""
        from dclab.features.emodulus import get_emodulus
        from dclab.features.emodulus.viscosity import KNOWN_MEDIA
        c = st.cfg.get("calculation", {})
        if "emodulus lut" not in c:
            return None
        d = self.data()
        px = st.cfg["imaging"]["pixel size"]
        area = d["area_um"] if "area_um" in d else d["area_cvx"] * px ** 2
        # a temporary feature only shadows *computed* features; stored
        # (innate) features take precedence over temporary ones
        if "area_um" not in d:
            area = st.shadow.get("area_um", area)
        kw = dict(area_um=area, deform=d["deform"],
                  channel_width=st.cfg["setup"]["channel width"],
                  flow_rate=st.cfg["setup"]["flow rate"], px_um=px,
                  lut_data=c["emodulus lut"])
        med = c.get("emodulus medium")
        visc = c.get("emodulus viscosity")
        if visc is not None and (med is None or str(med).lower() == "other"):
            return get_emodulus(medium=visc, temperature=None,
                                visc_model=None, **kw)
        if med is None or med not in KNOWN_MEDIA or visc is not None:
            return None
        model = c.get("emodulus viscosity model", "herold-2017")
        if "emodulus temperature" in c:
            return get_emodulus(medium=med,
                                temperature=c["emodulus temperature"],
                                visc_model=model, **kw)
        if "temp" in d:
            return get_emodulus(medium=med, temperature=d["temp"],
                                visc_model=model, **kw)
        if "temp" in st.shadow:
            # the temperature feature was provided as a temporary feature
            return get_emodulus(medium=med, temperature=st.shadow["temp"],
                                visc_model=model, **kw)
        return None

    def canon(self, st):
        ds = st.ds
        cfg = tuple(sorted((s, k, repr(v)) for s in ("calculation", "imaging",
                                                     "setup")
                           for k, v in dict(ds.config[s]).items()))
        try:
            def dig(x):
                if isinstance(x, (list, tuple)) or hasattr(x, "contours"):
                    return tuple(np.asarray(c).tobytes() for c in x)
                if hasattr(x, "masks"):      # lazy contour list
                    return ("lazy", tuple(x.indices))
                return np.asarray(x).tobytes()
            anc = tuple(sorted((k, v[0], dig(v[1]))
                               for k, v in ds._ancillaries.items()))
            ut = tuple(sorted((k, np.asarray(v).tobytes())
                              for k, v in ds._usertemp.items()))
        except AttributeError:
            anc, ut = explore.unique_token(), None
        ch = None
        if st.child is not None:
            try:
                ch = tuple(sorted(
                    (k, np.asarray(getattr(v, "_array", None)
                                   if getattr(v, "_array", None) is not None
                                   else 0).tobytes())
                    for k, v in st.child._events.items()
                    if k not in ("index",) and not isinstance(v, dict)
                    and hasattr(v, "_array")))
            except Exception:
                ch = explore.unique_token()
        return (cfg, anc, ut, ch)


# ---------------------------------------------------------------------------

def _bfs_one(args):
    cfg, depth, dev, scratch = args
    drv = AncDriver(scratch, **cfg)
    stats, vs = explore.bfs(drv, max_depth=depth, max_dev=dev, workers=1)
    return cfg, stats, vs


def _combo_case(args):
    """All present/absent combinations of the emodulus keys."""
    keys, with_temp, area, scratch = args
    drv = AncDriver(scratch, family="emod", scenario="B",
                    with_temp=with_temp, area=area)
    st = drv.fresh()
    calc = st.ds.config["calculation"]
    for k in list(calc.keys()):
        if k.startswith("emodulus"):
            calc.pop(k)
    st.cfg["calculation"] = {}
    for k, v in keys.items():
        calc[k] = v
        st.cfg["calculation"][k] = v
    vs = drv.check(st)
    for v in vs:
        v["case"] = {"kind": "combo", "keys": keys, "with_temp": with_temp,
                     "area": area}
    return vs


def combos():
    opts = {
        "emodulus lut": [None, "VF-LUT-A"],
        "emodulus medium": [None, "CellCarrier", "other"],
        "emodulus temperature": [None, 23.0],
        "emodulus viscosity": [None, 5.0],
        "emodulus viscosity model": [None, "buyukurganci-2022"],
    }
    names = list(opts)
    for vals in itertools.product(*[opts[n] for n in names]):
        yield {n: v for n, v in zip(names, vals) if v is not None}


PLUG2 = "vf_plug2_c06"
NLARGE = 200003


def _plug2_method(ds):
    return {PLUG2: 2.0 * np.asarray(ds[TMPF]) + 1.0}


def _large_case(args):
    """One long measurement (200003 events): a temporary feature that a
    plugin feature / the ML class depends on is replaced by an array that
    differs from the previous one in a single event, at each of a set of
    positions (first, last, odd, even, prime, around powers of two); the
    dependent feature read afterwards equals that of a fresh dataset."""
    import dclab
    from dclab.definitions import feat_logic
    from dclab.rtdc_dataset.feat_anc_plugin import PlugInFeature
    from dclab.rtdc_dataset.feat_anc_core import AncillaryFeature
    W = "dclab.rtdc_dataset.core:RTDCBase.__getitem__"
    out = []
    cnt = 0
    n = NLARGE
    if not feat_logic.feature_exists(TMPF):
        dclab.register_temporary_feature(TMPF)
    if PLUG2 not in AncillaryFeature.feature_names:
        PlugInFeature(PLUG2, {"method": _plug2_method,
                              "feature names": [PLUG2],
                              "features required": [TMPF],
                              "scalar feature": [True], "version": "1"})
    k = np.arange(n)
    data = {"deform": 0.01 + (k % 97) * 1e-3, "area_um": 50.0 + (k % 53)}
    pos = sorted({0, 1, 2, 3, 5, 7, 11, 4095, 4097, 65535, 65536, 65537,
                  99991, 131071, 131072, 131073, n // 2, n // 2 + 1,
                  n - 3, n - 2, n - 1})
    case = {"kind": "large"}

    def fresh(tmp, scores):
        d_ = dclab.new_dataset(dict(data))
        dclab.set_temporary_feature(d_, TMPF, tmp)
        for nm, sc in scores.items():
            dclab.set_temporary_feature(d_, nm, sc)
        return d_
    tmp = (k % 17) * 0.5
    scores = {"ml_score_abc": 0.25 + (k % 2) * 0.5,
              "ml_score_xyz": np.full(n, 0.5)}
    try:
        live = fresh(tmp, scores)
        np.asarray(live[PLUG2])
        np.asarray(live["ml_class"])
        for p_ in pos:
            cnt += 2
            tmp = tmp.copy()
            tmp[p_] += 1000.0
            dclab.set_temporary_feature(live, TMPF, tmp)
            sc = scores["ml_score_abc"].copy()
            sc[p_] = 1.0 - sc[p_]
            scores = dict(scores, ml_score_abc=sc)
            dclab.set_temporary_feature(live, "ml_score_abc", sc)
            ref = fresh(tmp, scores)
            for feat in (PLUG2, "ml_class"):
                got = np.asarray(live[feat])
                want = np.asarray(ref[feat])
                if not gen.arrays_equal(got, want):
                    bad_at = np.flatnonzero(~((got == want) | (
                        np.isnan(got) & np.isnan(want))))
                    out.append(violation(
                        W, "stale-value", case,
                        f"{n} events: after replacing the temporary "
                        f"feature by an array that differs in event {p_}, "
                        f"{feat} differs from a fresh dataset at events "
                        f"{bad_at[:5].tolist()}",
                        {"feat": feat, "scope": "large-input"}))
                    return cnt, out
    except Exception as e:
        out.append(violation(W, "exception", case,
                             f"{type(e).__name__}: {e}",
                             {"exc": type(e).__name__,
                              "scope": "large-input"}))
    return cnt, out


def run(ctx):
    scratch = ctx.scratch
    lut.register(scratch)
    plans = []
    depth, dev = (3, 1) if ctx.quick else (4, 2)
    for scen in ("A", "B", "C"):
        for with_temp in (True, False):
            if scen == "A" and not with_temp:
                continue
            plans.append(dict(family="emod", scenario=scen,
                              with_temp=with_temp, area="stored"))
    plans.append(dict(family="emod", scenario="C", with_temp=True,
                      area="computed"))
    plans.append(dict(family="emod", scenario="C", with_temp=False,
                      area="computed", child=True))
    plans.append(dict(family="emod", scenario="BC", with_temp=False,
                      area="stored"))
    plans.append(dict(family="image", scenario="image"))
    plans.append(dict(family="ml", scenario="ml"))
    plans.append(dict(family="ctc", scenario="ctc2", nfl=2))
    plans.append(dict(family="ctc", scenario="ctc2x", nfl=2))
    plans.append(dict(family="ctc", scenario="ctc3", nfl=3))
    plans.append(dict(family="ctc", scenario="ctc2", nfl=3))
    res = []
    for pl in plans:
        drv = AncDriver(scratch, **pl)
        stats, vs = explore.bfs(drv, max_depth=depth, max_dev=dev)
        res.append((pl, stats, vs))
    parts, viols = [], []
    for cfg, stats, vs in res:
        nm = "-".join(f"{v}" for v in cfg.values())
        parts.append((nm, stats))
        viols.extend(vs)
    cov = explore.merge_stats(parts)
    cov["samples"] = cov["samples"][:8]
    items = [(k, wt, area, scratch) for k in combos()
             for wt in (True, False) for area in ("stored", "computed")]
    cres = par.pmap(_combo_case, items)
    for vs in cres:
        viols.extend(vs)
    lcnt, lvs = par.pmap(_large_case, [()])[0]
    viols.extend(lvs)
    cov["large_input_reads"] = lcnt
    cov["large_input_events"] = NLARGE
    cov["key_combinations"] = len(items)
    cov["traces_validated_against_impl"] += len(items)
    cov["rule"] = ("BFS over set/change/delete of [calculation]/[imaging]/"
                   "[setup] keys, feature reads, availability tests and "
                   "temporary-feature assignment from each documented "
                   "emodulus scenario (with/without temp feature, stored or "
                   "computed area_um, hierarchy child) and three crosstalk "
                   "scenarios; oracle = fresh dataset with the final "
                   "configuration")
    return {"level": LEVEL, "coverage": cov, "violations": viols,
            "vacuous": None if cov["distinct_observations"] > 10 else "few",
            "assumptions": [
                "30-node registered LUTs (VF-LUT-A/B) keep a read at ~2 ms",
                "values compared bit-exactly with a fresh dataset",
                "watched features: emodulus, time, area_um, fl*_max_ctc, a "
                "temporary feature"]}


def replay(case, ctx):
    if case.get("kind") == "large":
        return _large_case(())[1]
    if case.get("kind") == "combo":
        return _combo_case((case["keys"], case["with_temp"], case["area"],
                            ctx.scratch))
    drv = AncDriver(ctx.scratch, **case["config"])
    return explore.replay(drv, case)
