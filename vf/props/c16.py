"""C16 -- downsampling returns a reproducible subset of the requested size.

E3: all arrays of length <= 4/5 over a 6-letter value alphabet
{0, 1, 1, 2, NaN, inf} x every request 0..N+2 x both invalid-handling modes x
{rand, grid}; a table of large generated inputs; the dataset-level scatter
downsampling and the event-limit filter.
"""
import itertools

import numpy as np

from .. import par
from ..runner import violation

PROPERTY = "C16"
LEVEL = "exploration"
ALPHA = [0.0, 1.0, 1.0, 2.0, np.nan, np.inf]


def _valid(a, b=None):
    v = np.isfinite(a)
    if b is not None:
        v &= np.isfinite(b)
    return v


NT = [0]     # calls in this process that really had to choose events


def check_result(func, a, b, samples, remove_invalid, res, case):
    """Shared oracle for one call. res = returned tuple (with ret_idx)."""
    out = []
    where = f"dclab.downsampling:{func}"
    n = len(a)
    valid = _valid(a, b)
    nv = int(valid.sum())
    NT[0] += 0 < samples < (nv if remove_invalid else n)
    tags = {"func": func, "remove_invalid": remove_invalid,
            "req_gt_n": samples > n, "req_gt_valid": samples > nv,
            "constant": bool(nv > 1 and (np.ptp(a[valid]) == 0 or (
                b is not None and np.ptp(b[valid]) == 0)))}

    def bad(symptom, detail):
        out.append(violation(where, symptom, case, detail, tags))
    if isinstance(res, BaseException):
        bad("exception", f"{type(res).__name__}: {res}")
        out[-1]["tags"]["exc"] = type(res).__name__
        return out
    if b is None:
        dsa, idx = res
        dsb = None
    else:
        dsa, dsb, idx = res
    idx = np.asarray(idx)
    if idx.dtype != bool or idx.shape != (n,):
        bad("bad-mask", f"mask dtype {idx.dtype} shape {idx.shape}")
        return out
    if not (np.array_equal(dsa, a[idx], equal_nan=True) and (
            b is None or np.array_equal(dsb, b[idx], equal_nan=True))):
        bad("mask-does-not-select-returned", f"{dsa} vs {a[idx]}")
    eligible = nv if remove_invalid else n
    expect = samples if 0 < samples <= eligible else eligible
    if int(idx.sum()) != expect:
        bad("wrong-count", f"returned {int(idx.sum())} events, expected "
            f"{expect} (requested {samples}, {n} events, {nv} valid, "
            f"remove_invalid={remove_invalid}); a={a.tolist()}"
            + (f" b={b.tolist()}" if b is not None else ""))
    if remove_invalid and (idx & ~valid).any():
        bad("invalid-included", "invalid events returned although excluded")
    return out


def _call(f, *args, **kw):
    try:
        return f(*args, **kw)
    except BaseException as e:
        return e


def _small_case(args):
    n, chunk, nchunks = args
    from dclab import downsampling as dsm
    from dclab.cached import Cache
    out = []
    cnt = 0
    NT[0] = 0
    allarr = list(itertools.product(range(len(ALPHA)), repeat=n))
    for k in range(chunk, len(allarr), nchunks):
        letters = allarr[k]
        a = np.array([ALPHA[i] for i in letters])
        bs = [a[::-1].copy(), np.arange(n, dtype=float),
              np.where(np.arange(n) == 0, np.nan, 1.0 + np.arange(n))]
        for samples in range(0, n + 3):
            for rem in (False, True):
                case = {"kind": "small", "func": "downsample_rand",
                        "a": list(letters), "samples": samples,
                        "remove_invalid": rem}
                r1 = _call(dsm.downsample_rand, a, samples, rem, True)
                r2 = _call(dsm.downsample_rand, a.copy(), samples, rem, True)
                out += check_result("downsample_rand", a, None, samples, rem,
                                    r1, case)
                if not isinstance(r1, BaseException) and not (
                        isinstance(r2, BaseException)) and not np.array_equal(
                        r1[1], r2[1]):
                    out.append(violation(
                        "dclab.downsampling:downsample_rand",
                        "not-reproducible", case, f"{r1[1]} vs {r2[1]}"))
                cnt += 1
                for bi, b in enumerate(bs):
                    case = {"kind": "small", "func": "downsample_grid",
                            "a": list(letters), "b": bi, "samples": samples,
                            "remove_invalid": rem}
                    r1 = _call(dsm.downsample_grid, a, b, samples, rem, True)
                    out += check_result("downsample_grid", a, b, samples,
                                        rem, r1, case)
                    # second call: cached; third: cache cleared.  What the
                    # first caller does with its arrays is its own business
                    keep1 = None
                    if not isinstance(r1, BaseException):
                        keep1 = [np.array(x, copy=True) for x in r1]
                        for x in r1:
                            if isinstance(x, np.ndarray) and x.size \
                                    and x.flags.writeable:
                                x[...] = ~x if x.dtype == bool else x * 0 - 7
                        r1 = tuple(keep1)
                    r2 = _call(dsm.downsample_grid, a, b, samples, rem, True)
                    try:        # fast; clear_cache() collects garbage
                        Cache._cache.clear()
                        del Cache._keys[:]
                    except AttributeError:
                        Cache.clear_cache()
                    r3 = _call(dsm.downsample_grid, a, b, samples, rem, True)
                    if not isinstance(r1, BaseException):
                        for rr in (r2, r3):
                            if isinstance(rr, BaseException) or not all(
                                    np.array_equal(u, w, equal_nan=True)
                                    for u, w in zip(r1, rr)):
                                out.append(violation(
                                    "dclab.downsampling:downsample_grid",
                                    "not-reproducible", case,
                                    f"{r1[2]} vs {rr}"))
                    cnt += 1
    return cnt, out, NT[0]


SPELLINGS = [((), {}),
             ((), {"remove_invalid": True}),
             ((), {"ret_idx": True}),
             ((), {"remove_invalid": True, "ret_idx": True}),
             ((), {"ret_idx": True, "remove_invalid": False}),
             ((), {"remove_invalid": False}),
             ((True,), {}),
             ((True, True), {}),
             ((False, True), {}),
             ((True,), {"ret_idx": True})]


def _spelling_case(args):
    """The two switches given in every way a caller can spell them
    (left out, by keyword in either order, positionally): for all ordered
    pairs of spellings on the same arrays, called one after the other, the
    second call answers what *it* asked for - a mask exactly when it asked
    for one, invalid events left out exactly when it asked for that."""
    func, = args
    from dclab import downsampling as dsm
    from dclab.cached import Cache
    out = []
    cnt = 0
    f = getattr(dsm, func)
    k = np.arange(40, dtype=float)
    a = np.where(k % 7 == 3, np.nan, (k * 37) % 11 + k * 0.01)
    b = np.where(k % 9 == 4, np.inf, (k * 13) % 17 + k * 0.02)
    lead = (a, b) if func == "downsample_grid" else (a,)

    def meaning(sp):
        pos, kw = sp
        rem = pos[0] if len(pos) > 0 else kw.get("remove_invalid", False)
        idx = pos[1] if len(pos) > 1 else kw.get("ret_idx", False)
        return rem, idx
    for samples in (12, 30):     # below the number of valid events
        for i1, s1 in enumerate(SPELLINGS):
            for i2, s2 in enumerate(SPELLINGS):
                try:
                    Cache._cache.clear()
                    del Cache._keys[:]
                except AttributeError:
                    Cache.clear_cache()
                cnt += 1
                case = {"kind": "spelling", "func": func, "first": i1,
                        "second": i2, "samples": samples}
                _call(f, *lead, samples, *s1[0], **s1[1])
                res = _call(f, *lead, samples, *s2[0], **s2[1])
                rem, idx = meaning(s2)
                where = f"dclab.downsampling:{func}"
                tags = {"func": func, "history": "spelling",
                        "same_meaning": meaning(s1) == meaning(s2)}
                if isinstance(res, BaseException):
                    out.append(violation(
                        where, "exception", case,
                        f"{type(res).__name__}: {res}",
                        dict(tags, exc=type(res).__name__)))
                    continue
                nret = len(lead) + (1 if idx else 0)
                res_t = res if isinstance(res, tuple) else (res,)
                if len(res_t) != nret:
                    out.append(violation(
                        where, "wrong-return-shape", case,
                        f"after {s1}, the call {s2} returned "
                        f"{len(res_t)} objects, expected {nret}", tags))
                    continue
                if idx:
                    vs = check_result(func, a, b if len(lead) == 2 else None,
                                      samples, rem, res_t, case)
                    for v in vs:
                        v["tags"]["history"] = "spelling"
                    out += vs
                else:
                    vv = _valid(*[np.asarray(x) for x in res_t])
                    if rem and not vv.all():
                        out.append(violation(
                            where, "invalid-included", case,
                            f"after {s1}, the call {s2} returned invalid "
                            f"events although they were to be left out",
                            tags))
                    eligible = int(_valid(*lead).sum()) if rem else len(a)
                    expect = samples if samples <= eligible else eligible
                    if len(res_t[0]) != expect:
                        out.append(violation(
                            where, "wrong-count", case,
                            f"after {s1}, the call {s2} returned "
                            f"{len(res_t[0])} events, expected {expect}",
                            tags))
    return cnt, out, cnt


def generators(seed):
    rs = np.random.RandomState(seed)
    gens = {}
    for n in (1000, 20000):
        gens[f"uniform-{n}"] = (rs.uniform(0, 1, n), rs.uniform(0, 1, n))
        c = np.concatenate([rs.normal(0, .01, n // 2),
                            rs.normal(5, .01, n - n // 2)])
        gens[f"clustered-{n}"] = (c, c[::-1].copy())
        d = rs.randint(0, 5, n).astype(float)
        gens[f"duplicates-{n}"] = (d, rs.randint(0, 3, n).astype(float))
        x = rs.uniform(0, 1, n)
        x[::7] = np.nan
        y = rs.uniform(0, 1, n)
        y[3::11] = np.inf
        gens[f"nan-inf-{n}"] = (x, y)
    gens["constant-1000"] = (np.ones(1000), np.arange(1000.0))
    # two inputs of the same (large) size that differ only near the end,
    # passed one after the other with the same settings
    n = 70001
    x = rs.uniform(0, 1, n)
    y = rs.uniform(0, 1, n)
    x2, y2 = x.copy(), y.copy()
    x2[-3000:] = rs.uniform(2, 3, 3000)
    y2[-3000:] = rs.uniform(2, 3, 3000)
    x2[-5:] = np.nan
    gens[f"twins-{n}"] = (x, y, x2, y2)
    return gens


def _twins_case(name, seed, g):
    from dclab import downsampling as dsm
    out = []
    cnt = 0
    NT[0] = 0
    n = len(g[0])
    for samples in (0, 500, n - 10, n):
        for rem in (False, True):
            for which, (a, b) in (("first", g[:2]), ("second", g[2:]),
                                  ("first-again", g[:2])):
                case = {"kind": "big", "name": name, "seed": seed,
                        "samples": samples, "remove_invalid": rem,
                        "func": "downsample_grid", "input": which}
                r = _call(dsm.downsample_grid, a, b, samples, rem, True)
                out += check_result("downsample_grid", a, b, samples, rem, r,
                                    case)
                r = _call(dsm.downsample_rand, a, samples, rem, True)
                out += check_result("downsample_rand", a, None, samples,
                                    rem, r, dict(case,
                                                 func="downsample_rand"))
                cnt += 2
    return cnt, out, NT[0]


def _big_case(args):
    name, seed = args
    from dclab import downsampling as dsm
    g = generators(seed)[name]
    if len(g) == 4:
        return _twins_case(name, seed, g)
    a, b = g
    n = len(a)
    nv = int(_valid(a, b).sum())
    out = []
    cnt = 0
    NT[0] = 0
    for samples in sorted({0, 1, 17, 300, n // 2, nv - 1, nv, nv + 1, n - 1,
                           n, n + 5}):
        if samples < 0:
            continue
        for rem in (False, True):
            case = {"kind": "big", "name": name, "seed": seed,
                    "samples": samples, "remove_invalid": rem}
            r = _call(dsm.downsample_grid, a, b, samples, rem, True)
            out += check_result("downsample_grid", a, b, samples, rem, r,
                                dict(case, func="downsample_grid"))
            r = _call(dsm.downsample_rand, a, samples, rem, True)
            out += check_result("downsample_rand", a, None, samples, rem, r,
                                dict(case, func="downsample_rand"))
            cnt += 2
    return cnt, out, NT[0]


def _dataset_case(args):
    seed = args[0]
    allneg = len(args) > 1 and args[1] == "allneg"
    import dclab
    out = []
    cnt = 0
    nt = 0
    n = 12
    rs = np.random.RandomState(seed + 3)
    x = np.round(rs.uniform(10, 100, n), 3)
    y = np.round(rs.uniform(0.01, 0.2, n), 4)
    x[2] = np.nan
    y[5] = np.inf
    x[7] = -5.0          # invalid only on the log scale
    y[9] = 0.0
    if allneg:
        # nothing is valid on a logarithmic y axis
        y = -np.abs(y) - 0.001
    ds = dclab.new_dataset({"area_um": x, "deform": y})
    where = "dclab.rtdc_dataset.core:RTDCBase.get_downsampled_scatter"
    masks = [np.ones(n, bool), np.arange(n) % 2 == 0, np.arange(n) > 7]
    for mi, m in enumerate(masks):
        ds.config["filtering"]["limit events"] = 0
        ds.filter.manual[:] = m
        ds.apply_filter()
        sel = np.flatnonzero(m)
        for samples in range(0, n + 3):
            for rem in (False, True):
                for scale in ("linear/linear", "log/log", "linear/log",
                              "log/linear"):
                    xsc, ysc = scale.split("/")
                    case = {"kind": "dataset", "seed": seed, "mask": mi,
                            "samples": samples, "remove_invalid": rem,
                            "scale": scale, "allneg": allneg}
                    cnt += 1
                    r = _call(ds.get_downsampled_scatter, downsample=samples,
                              xscale=xsc, yscale=ysc, remove_invalid=rem,
                              ret_mask=True)
                    xs, ys = x[sel], y[sel]
                    with np.errstate(all="ignore"):
                        if xsc == "log":
                            xs = np.log(xs)
                        if ysc == "log":
                            ys = np.log(ys)
                    nv = int((np.isfinite(xs) & np.isfinite(ys)).sum())
                    tags = {"func": "get_downsampled_scatter",
                            "remove_invalid": rem,
                            "req_gt_n": samples > len(sel),
                            "req_gt_valid": samples > nv}
                    if isinstance(r, BaseException):
                        out.append(violation(
                            where, "exception", case,
                            f"{type(r).__name__}: {r}",
                            dict(tags, exc=type(r).__name__)))
                        continue
                    xd, yd, mask = r
                    if mask.shape != (n,) or (mask & ~m).any():
                        out.append(violation(
                            where, "mask-outside-filter", case, f"{mask}",
                            tags))
                        continue
                    if not (np.array_equal(xd, x[mask], equal_nan=True)
                            and np.array_equal(yd, y[mask], equal_nan=True)):
                        out.append(violation(
                            where, "mask-does-not-select-returned", case, "",
                            tags))
                    elig = nv if rem else len(sel)
                    nt += 0 < samples < elig
                    expect = samples if 0 < samples <= elig else elig
                    if int(mask.sum()) != expect:
                        out.append(violation(
                            where, "wrong-count", case,
                            f"{int(mask.sum())} != {expect} (filter selects "
                            f"{len(sel)}, {nv} valid)", tags))
    # event limit
    fw = "dclab.rtdc_dataset.filter:Filter.update"
    for mi, m in enumerate(masks):
        for lim in range(0, n + 3):
            ds.config["filtering"]["limit events"] = lim
            ds.filter.manual[:] = m
            ds.apply_filter()
            got = np.array(ds.filter.all)
            cnt += 1
            q = int(m.sum())
            expect = lim if 0 < lim < q else q
            nt += 0 < lim < q
            case = {"kind": "limit", "seed": seed, "mask": mi, "limit": lim}
            if int(got.sum()) != expect or (got & ~m).any():
                out.append(violation(
                    fw, "wrong-count", case,
                    f"limit {lim}: {int(got.sum())} selected of {q} "
                    f"qualifying", {"func": "limit events",
                                    "req_gt_n": lim > q}))
            ds.apply_filter()
            if not np.array_equal(got, ds.filter.all):
                out.append(violation(fw, "not-reproducible", case, "",
                                     {"func": "limit events"}))
    # the same limit with successive selections of equal size: the choice
    # must follow the current selection, not an earlier one
    same = [np.arange(n) % 2 == 0, np.arange(n) % 2 == 1,
            np.arange(n) < n // 2, np.arange(n) >= n // 2,
            np.arange(n) % 2 == 0]
    for lim in range(1, n // 2 + 2):
        ds.config["filtering"]["limit events"] = lim
        for mi, m in enumerate(same):
            ds.filter.manual[:] = m
            ds.apply_filter()
            got = np.array(ds.filter.all)
            cnt += 1
            q = int(m.sum())
            expect = lim if 0 < lim < q else q
            nt += 0 < lim < q
            case = {"kind": "limit-history", "seed": seed, "mask": mi,
                    "limit": lim}
            if int(got.sum()) != expect or (got & ~m).any():
                out.append(violation(
                    fw, "wrong-count", case,
                    f"limit {lim} after {mi} earlier selections of the same "
                    f"size: {np.flatnonzero(got).tolist()} selected, "
                    f"qualifying {np.flatnonzero(m).tolist()}",
                    {"func": "limit events", "history": True}))
            r = _call(ds.get_downsampled_scatter, downsample=0,
                      ret_mask=True)
            if isinstance(r, BaseException) or (r[2] & ~m).any():
                out.append(violation(
                    where, "mask-outside-filter", case, f"{r}",
                    {"func": "get_downsampled_scatter", "history": True}))
    ds.config["filtering"]["limit events"] = 0
    return cnt, out, nt


def run(ctx):
    viols = []
    cnt = 0
    items = []
    for n in ((1, 2, 3, 4) if ctx.quick else (1, 2, 3, 4, 5)):
        nch = 1 if n < 4 else (16 if n == 4 else 64)
        items += [(n, c, nch) for c in range(nch)]
    res = par.pmap(_small_case, items)
    res += par.pmap(_big_case, [(nm, ctx.seed)
                                for nm in generators(ctx.seed)])
    res += par.pmap(_dataset_case, [(ctx.seed,), (ctx.seed, "allneg")])
    res += par.pmap(_spelling_case, [("downsample_grid",),
                                     ("downsample_rand",)])
    nontriv = 0
    for n, vs, nt in res:
        cnt += n
        viols.extend(vs)
        nontriv += nt
    cov = {"evaluations": cnt, "distinct_nontrivial": nontriv,
           "rule": "small: every array of length 1..4 (quick) / 5 over the "
                   "alphabet {0,1,1,2,NaN,inf} (b from 3 derived variants) "
                   "x every request 0..N+2 x both invalid modes x "
                   "{rand, grid}, each call repeated (cached / cache "
                   "cleared); large generated inputs x 11 request sizes; "
                   "dataset level: 3 filters x requests 0..N+2 x modes x "
                   "linear/log, and the event limit 0..N+2; non-trivial = "
                   "the call requests fewer events than are eligible, so "
                   "that a choice has to be made (counted per call)",
           "samples": [{"a": [0, 4, 1, 3], "samples": 3,
                        "remove_invalid": True},
                       {"generator": "clustered-20000", "samples": 300},
                       {"dataset": "limit events", "limit": 5}],
           "exhaustive": True}
    return {"level": LEVEL, "coverage": cov, "violations": viols,
            "assumptions": ["value alphabet of 6 letters; lengths <= 5",
                            "eligible = all events (invalid included) or "
                            "valid events (invalid excluded)"]}


def replay(case, ctx):
    from dclab import downsampling as dsm
    if case["kind"] == "spelling":
        return [v for v in _spelling_case((case["func"],))[1]
                if v["case"] == case]
    if case["kind"] == "small":
        a = np.array([ALPHA[i] for i in case["a"]])
        n = len(a)
        if case["func"] == "downsample_rand":
            r = _call(dsm.downsample_rand, a, case["samples"],
                      case["remove_invalid"], True)
            return check_result("downsample_rand", a, None, case["samples"],
                                case["remove_invalid"], r, case)
        bs = [a[::-1].copy(), np.arange(n, dtype=float),
              np.where(np.arange(n) == 0, np.nan, 1.0 + np.arange(n))]
        b = bs[case["b"]]
        r = _call(dsm.downsample_grid, a, b, case["samples"],
                  case["remove_invalid"], True)
        return check_result("downsample_grid", a, b, case["samples"],
                            case["remove_invalid"], r, case)
    if case["kind"] == "big":
        vs = _big_case((case["name"], case["seed"]))[1]
        return [v for v in vs if v["case"]["samples"] == case["samples"]
                and v["case"]["remove_invalid"] == case["remove_invalid"]
                and v["case"]["func"] == case["func"]]
    vs = _dataset_case((case["seed"], "allneg") if case.get("allneg")
                       else (case["seed"],))[1]
    return [v for v in vs if all(v["case"].get(k) == case.get(k)
                                 for k in case)]
