"""Small user look-up tables (30 nodes) in dclab's LUT text format."""
import json

import numpy as np

AREAS = [30.0, 60.0, 100.0, 150.0, 220.0, 300.0]
DEFORMS = [0.01, 0.03, 0.06, 0.10, 0.15]


def lut_array(variant="A"):
    rows = []
    k = 1.0 if variant == "A" else 1.7
    for a in AREAS:
        for d in DEFORMS:
            # decreasing in deform, increasing in area; not linear
            e = k * (0.08 / (d + 0.004) + (a / 100.0) ** 1.3)
            rows.append((a, d, round(e, 6)))
    return np.array(rows)


def lut_meta(identifier, channel_width=20.0, flow_rate=0.04,
             fluid_viscosity=15.0):
    return {
        "authors": "vf", "channel_width": channel_width,
        "channel_width_unit": "um", "date": "2026-10-04",
        "dimensionality": "2Daxis", "flow_rate": flow_rate,
        "flow_rate_unit": "uL/s", "fluid_density": 1000.0,
        "fluid_density_unit": "kg m^-3", "fluid_viscosity": fluid_viscosity,
        "fluid_viscosity_unit": "mPa s", "identifier": identifier,
        "method": "FEM", "model": "linear elastic",
        "solid_density": 1000.0, "solid_density_unit": "kg m^-3",
        "column features": ["area_um", "deform", "emodulus"],
    }


def write_lut(path, identifier, variant="A"):
    arr = lut_array(variant)
    meta = lut_meta(identifier)
    meta.pop("column features")
    lines = ["# vf test look-up table", "#", "# BEGIN METADATA"]
    for ln in json.dumps(meta, indent=2, sort_keys=True).split("\n"):
        lines.append("# " + ln)
    lines += ["# END METADATA", "#",
              "# area_um [um^2]\tdeform\temodulus [kPa]"]
    for a, d, e in arr:
        lines.append(f"{a:.5e}\t{d:.5e}\t{e:.5e}")
    path.write_text("\n".join(lines) + "\n")
    return path


def register(scratch):
    """Register VF-LUT-A / VF-LUT-B (idempotent). Returns their paths."""
    from dclab.features.emodulus import load
    out = {}
    for var in ("A", "B"):
        ident = f"VF-LUT-{var}"
        path = scratch / f"lut_{ident}.txt"
        if not path.exists():
            write_lut(path, ident, var)
        if ident not in load.EXTERNAL_LUTS:
            load.register_lut(path, ident)
        else:
            load.EXTERNAL_LUTS[ident] = path
        out[ident] = path
    return out
