"""Fork-based fan-out.  Workers are forked *before* any HDF5 file is open in
the parent; each worker handles items[i::n] and streams pickled results."""
import os
import pickle
import struct
import sys
import traceback


class WorkerFailure(RuntimeError):
    """A case function raised.  `in_sut` is True when the innermost frame
    that belongs to either the harness or the repository is repository code,
    i.e. the system under test raised (a behaviour, not a harness bug)."""

    def __init__(self, text, in_sut):
        super().__init__(text)
        self.in_sut = in_sut


def classify_traceback(tb):
    """True if the exception was raised from code of the system under test
    (possibly below it, in numpy/h5py called by it)."""
    import os
    repo = os.environ.get("VERIF_REPO", "/repo").rstrip("/") + "/"
    here = os.path.dirname(os.path.dirname(os.path.abspath(__file__))) + "/"
    last = None
    while tb is not None:
        fn = tb.tb_frame.f_code.co_filename
        if fn.startswith(repo):
            last = "sut"
        elif fn.startswith(here):
            last = "harness"
        tb = tb.tb_next
    return last == "sut"


def ncpu():
    try:
        n = len(os.sched_getaffinity(0))
    except AttributeError:
        n = os.cpu_count() or 1
    return max(1, min(16, n, int(os.environ.get("VERIF_WORKERS", "16"))))


def _read_exact(fd, n):
    buf = bytearray()
    while len(buf) < n:
        chunk = os.read(fd, min(1 << 20, n - len(buf)))
        if not chunk:
            return None
        buf += chunk
    return bytes(buf)


def pmap(func, items, workers=None, init=None):
    """Apply func to each item in forked workers; returns results in order.

    func(item) must return something picklable.  An exception in a worker is
    re-raised in the parent as RuntimeError (harness error, never a verdict).
    """
    items = list(items)
    if workers is None:
        workers = ncpu()
    workers = max(1, min(workers, len(items)))
    if workers == 1 or len(items) <= 1:
        if init:
            init()
        try:
            return [func(it) for it in items]
        except WorkerFailure:
            raise
        except Exception as e:
            raise WorkerFailure("case function failed:\n"
                                + traceback.format_exc(),
                                classify_traceback(e.__traceback__))
    sys.stdout.flush()
    sys.stderr.flush()
    kids = []
    for w in range(workers):
        r, wfd = os.pipe()
        pid = os.fork()
        if pid == 0:
            code = 0
            try:
                os.close(r)
                for k in kids:
                    os.close(k[1])
                if init:
                    init()
                out = []
                for i in range(w, len(items), workers):
                    out.append((i, func(items[i])))
                data = pickle.dumps(("ok", out), protocol=4)
            except BaseException as e:
                in_sut = isinstance(e, WorkerFailure) and e.in_sut or \
                    classify_traceback(e.__traceback__)
                data = pickle.dumps(("err", (traceback.format_exc(), in_sut)),
                                    protocol=4)
                code = 3
            try:
                os.write(wfd, struct.pack("<Q", len(data)))
                view = memoryview(data)
                while view:
                    n = os.write(wfd, view[:1 << 20])
                    view = view[n:]
                os.close(wfd)
            finally:
                if os.environ.get("VERIF_COV"):
                    # anchor-coverage audit (tools/anchorcov.py): a forked
                    # worker has to save what it measured itself
                    try:
                        import coverage
                        cov = coverage.Coverage.current()
                        if cov is not None:
                            cov.stop()
                            cov.save()
                    except Exception:
                        pass
                os._exit(code)
        os.close(wfd)
        kids.append((pid, r))
    results = [None] * len(items)
    errors = []
    sut_flags = []
    for pid, r in kids:
        head = _read_exact(r, 8)
        if head is None:
            errors.append(f"worker {pid} died without output")
        else:
            (n,) = struct.unpack("<Q", head)
            data = _read_exact(r, n)
            if data is None:
                errors.append(f"worker {pid} truncated output")
            else:
                kind, payload = pickle.loads(data)
                if kind == "ok":
                    for i, res in payload:
                        results[i] = res
                else:
                    errors.append(payload[0])
                    sut_flags.append(payload[1])
        os.close(r)
        os.waitpid(pid, 0)
    if errors:
        raise WorkerFailure("worker failure:\n" + "\n".join(errors),
                            bool(sut_flags) and all(sut_flags)
                            and len(sut_flags) == len(errors))
    return results
