"""In-memory HTTP host for dclab.http_utils (no sockets, no threads).

Answers range requests as RFC 7233 prescribes:
* satisfiable range  -> 206 + the bytes (clipped to the resource)
* first-byte-pos >= length (valid syntax) -> 416 + an error body
* last-byte-pos < first-byte-pos (invalid syntax) -> the Range header is
  ignored: 200 + the full body   (flavour "rfc", default)
Other flavours model servers that deviate: "strict416" answers every
unsatisfiable/invalid range with 416, "empty206" with an empty 206.
"""
import hashlib
import re
import socket as _real_socket
from urllib.parse import urlparse

ERROR_BODY = b"<?xml version='1.0'?><Error>InvalidRange</Error>"


class FakeResponse:
    def __init__(self, status, content, headers=None, reason="OK"):
        self.status_code = status
        self.content = content
        self.headers = headers or {}
        self.reason = reason
        self.ok = status < 400

    def close(self):
        pass

    def json(self):
        import json
        return json.loads(self.content.decode("utf-8"))


DCSERV = re.compile(r"^(https?://[^/]+/api/3/action/dcserv\?id=[0-9a-f-]+)"
                    r"&version=(\d+)&query=([a-z_]+)(.*)$")


class FakeHost:
    def __init__(self, flavour="rfc"):
        self.blobs = {}      # url -> bytes
        self.flavour = flavour
        self.log = []        # (url, range header or None)
        self.hosts = set()
        self.dcor = {}       # dcserv base url -> {query: result}

    def add_dcor(self, base_url, answers):
        """A DCOR resource (dcserv API version 2): `answers` maps a query
        name (metadata, basins, logs, tables, valid, size, ...) to the
        result the server returns for it."""
        self.dcor[base_url] = dict(answers)
        self.hosts.add(urlparse(base_url).hostname)

    def add(self, url, blob):
        self.blobs[url] = bytes(blob)
        self.hosts.add(urlparse(url).hostname)

    # requests-like session API -------------------------------------------
    def get(self, url, headers=None, stream=False, timeout=None, **kw):
        rng = (headers or {}).get("Range")
        self.log.append((url, rng))
        m = DCSERV.match(url)
        if m:
            import json
            res = self.dcor.get(m.group(1))
            if res is None or m.group(3) not in res:
                body = {"success": False,
                        "error": {"message": "Not found"}}
            else:
                body = {"success": True, "result": res[m.group(3)]}
            return FakeResponse(200, json.dumps(body).encode("utf-8"),
                                {"content-type": "application/json"})
        if url not in self.blobs:
            return FakeResponse(404, b"not found", reason="Not Found")
        blob = self.blobs[url]
        etag = '"' + hashlib.md5(blob).hexdigest() + '"'
        base = {"content-length": str(len(blob)), "etag": etag,
                "accept-ranges": "bytes"}
        if rng is None:
            return FakeResponse(200, blob, base)
        m = re.fullmatch(r"bytes=(\d+)-(\d*)", rng.strip())
        if not m:
            return FakeResponse(200, blob, base)
        first = int(m.group(1))
        last = int(m.group(2)) if m.group(2) else len(blob) - 1
        if last < first:
            kind = "invalid"
        elif first >= len(blob):
            kind = "unsatisfiable"
        else:
            kind = "ok"
        if kind == "ok":
            data = blob[first:min(last, len(blob) - 1) + 1]
            h = dict(base)
            h["content-length"] = str(len(data))
            return FakeResponse(206, data, h, reason="Partial Content")
        if self.flavour == "empty206":
            return FakeResponse(206, b"", base, reason="Partial Content")
        if kind == "unsatisfiable" or self.flavour == "strict416":
            return FakeResponse(416, ERROR_BODY, base,
                                reason="Range Not Satisfiable")
        return FakeResponse(200, blob, base)

    def close(self):
        pass


class FakeSessionCache:
    def __init__(self, host):
        self.host = host

    def get_session(self, url):
        return self.host


class _FakeSocketObj:
    def __init__(self, host):
        self._host = host

    def __enter__(self):
        return self

    def __exit__(self, *a):
        return False

    def settimeout(self, t):
        pass

    def connect(self, addr):
        if addr[0] not in self._host.hosts:
            raise _real_socket.gaierror(-2, "Name or service not known")

    def close(self):
        pass


class FakeSocketModule:
    AF_INET = _real_socket.AF_INET
    SOCK_STREAM = _real_socket.SOCK_STREAM
    gaierror = _real_socket.gaierror

    def __init__(self, host):
        self._host = host

    def socket(self, *a, **kw):
        return _FakeSocketObj(self._host)


class _Raw:
    """Body object of a botocore AWSResponse."""

    def __init__(self, data):
        import io
        self._b = io.BytesIO(data)

    def stream(self, amt=1024, decode_content=None):
        while True:
            c = self._b.read(amt)
            if not c:
                break
            yield c

    def read(self, amt=None, decode_content=None):
        return self._b.read(amt)

    def release_conn(self):
        pass

    def close(self):
        pass


def _s3_send(host):
    """Replacement for botocore.httpsession.URLLib3Session.send: path-style
    S3 requests (HEAD / GET with Range) are answered from the host's blobs
    the way an S3 store does (206 + Content-Range; InvalidRange for a first
    position beyond the object; a syntactically invalid range is ignored)."""
    import botocore.awsrequest

    def send(self, request):
        url = request.url.split("?")[0]
        hdr = {k.lower(): (v.decode() if isinstance(v, bytes) else v)
               for k, v in request.headers.items()}
        rng = hdr.get("range")
        up = urlparse(url)
        # dclab builds the endpoint with an explicit port; blobs are
        # registered without one
        plain = f"{up.scheme}://{up.hostname}{up.path}"
        host.log.append((request.method + " " + plain, rng))
        blob = host.blobs.get(plain, host.blobs.get(url))

        def resp(status, headers, data=b""):
            return botocore.awsrequest.AWSResponse(
                request.url, status, headers, _Raw(data))
        if blob is None:
            body = (b"<?xml version='1.0'?><Error><Code>NoSuchKey</Code>"
                    b"<Message>not found</Message></Error>")
            return resp(404, {"Content-Length": str(
                0 if request.method == "HEAD" else len(body)),
                "Content-Type": "application/xml"},
                b"" if request.method == "HEAD" else body)
        base = {"Content-Length": str(len(blob)),
                "ETag": '"' + hashlib.md5(blob).hexdigest() + '"',
                "Last-Modified": "Wed, 21 Oct 2015 07:28:00 GMT",
                "Accept-Ranges": "bytes",
                "Content-Type": "binary/octet-stream"}
        if request.method == "HEAD":
            return resp(200, base)
        m = re.fullmatch(r"bytes=(\d+)-(\d*)", rng.strip()) if rng else None
        if m:
            first = int(m.group(1))
            last = int(m.group(2)) if m.group(2) else len(blob) - 1
            if last >= first:
                if first >= len(blob):
                    body = (b"<?xml version='1.0'?><Error><Code>InvalidRange"
                            b"</Code><Message>The requested range is not "
                            b"satisfiable</Message></Error>")
                    return resp(416, {"Content-Length": str(len(body)),
                                      "Content-Type": "application/xml"},
                                body)
                data = blob[first:last + 1]
                h = dict(base)
                h["Content-Length"] = str(len(data))
                h["Content-Range"] = (f"bytes {first}-{first + len(data) - 1}"
                                      f"/{len(blob)}")
                return resp(206, h, data)
        return resp(200, base, blob)
    return send


class installed:
    """Context manager: route dclab.http_utils (requests sessions, socket
    probes), the DCOR API client and boto3/botocore through a FakeHost."""

    def __init__(self, host, s3=False):
        self.host = host
        self.s3 = s3

    def __enter__(self):
        from dclab import http_utils
        from dclab.rtdc_dataset.fmt_dcor import api as dcor_api
        self.mod = http_utils
        self.dcor_api = dcor_api
        self.saved = (http_utils.session_cache, http_utils.socket,
                      http_utils.REQUESTS_AVAILABLE)
        self.saved_dcor = dcor_api.session_cache
        fsc = FakeSessionCache(self.host)
        http_utils.session_cache = fsc
        dcor_api.session_cache = fsc
        http_utils.socket = FakeSocketModule(self.host)
        http_utils.REQUESTS_AVAILABLE = True
        if self.s3:
            import botocore.httpsession
            from dclab.rtdc_dataset import fmt_s3
            self.fmt_s3 = fmt_s3
            self.saved_s3 = (botocore.httpsession.URLLib3Session.send,
                             fmt_s3.socket)
            botocore.httpsession.URLLib3Session.send = _s3_send(self.host)
            fmt_s3.socket = FakeSocketModule(self.host)
        return self.host

    def __exit__(self, *a):
        (self.mod.session_cache, self.mod.socket,
         self.mod.REQUESTS_AVAILABLE) = self.saved
        self.dcor_api.session_cache = self.saved_dcor
        if self.s3:
            import botocore.httpsession
            (botocore.httpsession.URLLib3Session.send,
             self.fmt_s3.socket) = self.saved_s3
        return False


class StubS3Object:
    """Stands in for boto3's `s3.Object` (content_length, e_tag, get with a
    Range) so that dclab's S3File can be built without a boto3 session
    (that costs 0.2 s per object - too slow for a state-space search)."""

    def __init__(self, blob, log=None):
        self.blob = bytes(blob)
        self.log = log if log is not None else []

    @property
    def content_length(self):
        return len(self.blob)

    @property
    def e_tag(self):
        return '"' + hashlib.md5(self.blob).hexdigest() + '"'

    def load(self):
        pass

    def get(self, Range=None, **kw):
        import io
        self.log.append(Range)
        blob = self.blob
        m = re.fullmatch(r"bytes=(\d+)-(\d*)", Range.strip()) if Range \
            else None
        data = blob
        if m:
            first = int(m.group(1))
            last = int(m.group(2)) if m.group(2) else len(blob) - 1
            if last >= first:
                if first >= len(blob):
                    import botocore.exceptions
                    raise botocore.exceptions.ClientError(
                        {"Error": {"Code": "InvalidRange",
                                   "Message": "The requested range is not "
                                              "satisfiable"}}, "GetObject")
                data = blob[first:last + 1]
        return {"Body": io.BytesIO(data), "ContentLength": len(data)}


class _StubClient:
    def close(self):
        pass


def stub_s3file(url, blob, chunk_size, keep_chunks, log=None):
    """dclab's S3File on a StubS3Object, with the chunk geometry of the
    search (S3File itself offers no such parameters)."""
    from dclab import http_utils
    from dclab.rtdc_dataset import fmt_s3
    f = object.__new__(fmt_s3.S3File)
    f.s3_object = StubS3Object(blob, log)
    f.s3_client = _StubClient()
    http_utils.HTTPFile.__init__(f, url, chunk_size=chunk_size,
                                 keep_chunks=keep_chunks)
    return f
