"""In-memory HTTP host for dclab.http_utils (no sockets, no threads).

Answers range requests as RFC 7233 prescribes:
* satisfiable range  -> 206 + the bytes (clipped to the resource)
* first-byte-pos >= length (valid syntax) -> 416 + an error body
* last-byte-pos < first-byte-pos (invalid syntax) -> the Range header is
  ignored: 200 + the full body   (flavour "rfc", default)
Other flavours model servers that deviate: "strict416" answers every
unsatisfiable/invalid range with 416, "empty206" with an empty 206.
"""
import hashlib
import re
import socket as _real_socket
from urllib.parse import urlparse

ERROR_BODY = b"<?xml version='1.0'?><Error>InvalidRange</Error>"


class FakeResponse:
    def __init__(self, status, content, headers=None, reason="OK"):
        self.status_code = status
        self.content = content
        self.headers = headers or {}
        self.reason = reason
        self.ok = status < 400

    def close(self):
        pass


class FakeHost:
    def __init__(self, flavour="rfc"):
        self.blobs = {}      # url -> bytes
        self.flavour = flavour
        self.log = []        # (url, range header or None)
        self.hosts = set()

    def add(self, url, blob):
        self.blobs[url] = bytes(blob)
        self.hosts.add(urlparse(url).hostname)

    # requests-like session API -------------------------------------------
    def get(self, url, headers=None, stream=False, timeout=None, **kw):
        rng = (headers or {}).get("Range")
        self.log.append((url, rng))
        if url not in self.blobs:
            return FakeResponse(404, b"not found", reason="Not Found")
        blob = self.blobs[url]
        etag = '"' + hashlib.md5(blob).hexdigest() + '"'
        base = {"content-length": str(len(blob)), "etag": etag,
                "accept-ranges": "bytes"}
        if rng is None:
            return FakeResponse(200, blob, base)
        m = re.fullmatch(r"bytes=(\d+)-(\d*)", rng.strip())
        if not m:
            return FakeResponse(200, blob, base)
        first = int(m.group(1))
        last = int(m.group(2)) if m.group(2) else len(blob) - 1
        if last < first:
            kind = "invalid"
        elif first >= len(blob):
            kind = "unsatisfiable"
        else:
            kind = "ok"
        if kind == "ok":
            data = blob[first:min(last, len(blob) - 1) + 1]
            h = dict(base)
            h["content-length"] = str(len(data))
            return FakeResponse(206, data, h, reason="Partial Content")
        if self.flavour == "empty206":
            return FakeResponse(206, b"", base, reason="Partial Content")
        if kind == "unsatisfiable" or self.flavour == "strict416":
            return FakeResponse(416, ERROR_BODY, base,
                                reason="Range Not Satisfiable")
        return FakeResponse(200, blob, base)

    def close(self):
        pass


class FakeSessionCache:
    def __init__(self, host):
        self.host = host

    def get_session(self, url):
        return self.host


class _FakeSocketObj:
    def __init__(self, host):
        self._host = host

    def __enter__(self):
        return self

    def __exit__(self, *a):
        return False

    def settimeout(self, t):
        pass

    def connect(self, addr):
        if addr[0] not in self._host.hosts:
            raise _real_socket.gaierror(-2, "Name or service not known")

    def close(self):
        pass


class FakeSocketModule:
    AF_INET = _real_socket.AF_INET
    SOCK_STREAM = _real_socket.SOCK_STREAM
    gaierror = _real_socket.gaierror

    def __init__(self, host):
        self._host = host

    def socket(self, *a, **kw):
        return _FakeSocketObj(self._host)


class installed:
    """Context manager: route dclab.http_utils through a FakeHost."""

    def __init__(self, host):
        self.host = host

    def __enter__(self):
        from dclab import http_utils
        self.mod = http_utils
        self.saved = (http_utils.session_cache, http_utils.socket,
                      http_utils.REQUESTS_AVAILABLE)
        http_utils.session_cache = FakeSessionCache(self.host)
        http_utils.socket = FakeSocketModule(self.host)
        http_utils.REQUESTS_AVAILABLE = True
        return self.host

    def __exit__(self, *a):
        (self.mod.session_cache, self.mod.socket,
         self.mod.REQUESTS_AVAILABLE) = self.saved
        return False
