"""Bounded exhaustive exploration (model checking) harness for dclab."""
