"""Keep the compiled extensions in step with /repo's working tree.

Cython is not installed in this sandbox (and there is no wheel), so a .pyx
cannot be translated.  What can be done: if a generated .c file differs from
the one the current .so was built from, rebuild the .so with gcc.  A changed
.pyx with an unchanged .c is reported as a note in the evidence.
"""
import fcntl
import hashlib
import json
import os
import pathlib
import subprocess
import sysconfig

from .boot import REPO, VERIF

EXTS = [
    "dclab/downsampling",
    "dclab/external/skimage/_shared/geometry",
    "dclab/external/skimage/_find_contours_cy",
    "dclab/external/skimage/_pnpoly",
]
STAMP = VERIF / ".build" / "ext_stamp.json"
BASELINE = VERIF / "ext_baseline.json"


def _sha(p):
    p = pathlib.Path(p)
    if not p.exists():
        return None
    return hashlib.sha256(p.read_bytes()).hexdigest()


def _so_path(stem):
    suffix = sysconfig.get_config_var("EXT_SUFFIX")
    return REPO / (stem + suffix)


def current():
    out = {}
    for stem in EXTS:
        out[stem] = {"pyx": _sha(REPO / (stem + ".pyx")),
                     "c": _sha(REPO / (stem + ".c")),
                     "so": _sha(_so_path(stem))}
    return out


def stamp():
    STAMP.parent.mkdir(exist_ok=True)
    STAMP.write_text(json.dumps(current(), indent=1))


def _build(stem):
    import numpy as np
    inc = sysconfig.get_paths()["include"]
    cc = (sysconfig.get_config_var("CC") or "gcc").split()
    cflags = (sysconfig.get_config_var("CFLAGS") or "").split()
    ccshared = (sysconfig.get_config_var("CCSHARED") or "-fPIC").split()
    ldshared = (sysconfig.get_config_var("LDSHARED") or "gcc -shared").split()
    src = REPO / (stem + ".c")
    so = _so_path(stem)
    tmp = so.with_suffix(".so.vftmp")
    cmd = cc + cflags + ccshared + [
        "-w", "-I", inc, "-I", np.get_include(),
        "-I", str(REPO / "dclab/external/skimage/_shared"),
        "-DNPY_NO_DEPRECATED_API=NPY_1_7_API_VERSION",
        "-c", str(src), "-o", str(tmp) + ".o"]
    subprocess.run(cmd, check=True)
    subprocess.run(ldshared + [str(tmp) + ".o", "-o", str(tmp)], check=True)
    os.unlink(str(tmp) + ".o")
    os.replace(tmp, so)


def ensure_extensions():
    """Rebuild any .so whose .c changed since the stamp. Returns notes."""
    notes = []
    STAMP.parent.mkdir(exist_ok=True)
    lock = open(STAMP.parent / "ext.lock", "w")
    fcntl.flock(lock, fcntl.LOCK_EX)
    try:
        if STAMP.exists():
            old = json.loads(STAMP.read_text())
        elif BASELINE.exists():
            # pinned tree: hashes of the .c files the shipped .so were built
            # from; anything that differs is rebuilt
            old = json.loads(BASELINE.read_text())
        else:
            old = {}
        cur = current()
        changed = False
        for stem in EXTS:
            o, c = old.get(stem, {}), cur[stem]
            if c["c"] is None:
                notes.append(f"{stem}.c missing; using existing .so")
                continue
            if c["c"] != o.get("c") or c["so"] is None:
                _build(stem)
                notes.append(f"{stem}: .c changed, .so rebuilt with gcc")
                changed = True
            if c["pyx"] != o.get("pyx") and c["c"] == o.get("c"):
                notes.append(f"{stem}.pyx changed but the generated .c did "
                             "not (Cython unavailable): compiled code "
                             "unchanged")
        if changed or not STAMP.exists():
            new = current()
            # keep old pyx hashes for which the note must persist
            for stem in EXTS:
                if new[stem]["c"] == old.get(stem, {}).get("c"):
                    new[stem]["pyx"] = old.get(stem, {}).get("pyx")
            STAMP.write_text(json.dumps(new, indent=1))
    finally:
        fcntl.flock(lock, fcntl.LOCK_UN)
        lock.close()
    return notes
