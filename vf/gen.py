"""Deterministic generators for small RT-DC datasets with every feature kind.

Shapes, counts and structures are chosen by the callers (enumerated); only
the *values* that fill them depend on the seed.
"""
import contextlib

import numpy as np

IMG_SHAPE = (6, 8)          # roi size y, x
TRACE_LEN = 5
USER_FEAT = "vf_userfeat"   # non-scalar temporary feature, shape (2, 3)
USER_SHAPE = (2, 3)
USER_SCALAR = "vf_userscalar"

NAN = float("nan")


def register_user_features():
    import dclab
    from dclab.definitions import feat_logic
    if not feat_logic.feature_exists(USER_FEAT):
        dclab.register_temporary_feature(USER_FEAT, is_scalar=False)
    if not feat_logic.feature_exists(USER_SCALAR):
        dclab.register_temporary_feature(USER_SCALAR, is_scalar=True)


def make_events(n, seed=0, special=True, feats=None):
    """Return a dict feature -> data for n events (master pool).

    special: place NaN/inf/extreme values into `deform`.
    """
    rs = np.random.RandomState(1000 + seed)
    ev = {}
    deform = np.round(rs.uniform(0.005, 0.2, n), 6)
    if special and n:
        spec = [NAN, np.inf, -np.inf, 1e-300, 1.7e308, -0.0]
        for j, val in enumerate(spec):
            pos = 1 + 2 * j       # positions 1,3,5,...
            if pos < n:
                deform[pos] = val
    ev["deform"] = deform
    ev["area_um"] = np.round(rs.uniform(20, 200, n), 3)
    ev["bright_avg"] = np.round(rs.uniform(50, 150, n), 3)
    ev["pos_x"] = np.round(rs.uniform(10, 100, n), 3)
    ev["time"] = np.round(np.cumsum(rs.uniform(0.001, 0.01, n)), 6)
    ev["frame"] = np.cumsum(rs.randint(1, 5, n)).astype(np.int64) + 2**33
    ev["fl1_max"] = rs.randint(0, 2**20, n).astype(np.int64)
    ev["index_online"] = np.cumsum(rs.randint(1, 3, n)).astype(np.int64)
    if special and n >= 4:
        # integers that a detour through float64 would round
        ev["index_online"][0] = 2 ** 53 + 1
        ev["index_online"][2] = 2 ** 60 + 1
    ev["index"] = np.arange(1, n + 1)
    ev["image"] = rs.randint(0, 256, (n,) + IMG_SHAPE).astype(np.uint8)
    ev["image_bg"] = rs.randint(0, 256, (n,) + IMG_SHAPE).astype(np.uint8)
    mask = np.zeros((n,) + IMG_SHAPE, dtype=bool)
    for i in range(n):
        y0 = 1 + i % 2
        x0 = 1 + i % 3
        mask[i, y0:y0 + 2 + i % 2, x0:x0 + 2 + i % 3] = True
    ev["mask"] = mask
    ev["contour"] = [rs.randint(0, 8, (3 + (i * 7) % 5, 2)).astype(np.int64)
                     for i in range(n)]
    ev["trace"] = {
        "fl1_raw": rs.randint(-2**15, 2**15, (n, TRACE_LEN)).astype(np.int16),
        "fl1_median": rs.randint(-2**15, 2**15,
                                 (n, TRACE_LEN)).astype(np.int16),
    }
    ev[USER_FEAT] = np.round(rs.uniform(-1, 1, (n,) + USER_SHAPE), 5)
    if feats is not None:
        ev = {k: v for k, v in ev.items() if k in feats}
    return ev


def take(ev, start, stop):
    """Slice events [start:stop] of a master pool."""
    out = {}
    for k, v in ev.items():
        if k == "trace":
            out[k] = {t: a[start:stop] for t, a in v.items()}
        elif k == "contour":
            out[k] = v[start:stop]
        else:
            out[k] = v[start:stop]
    return out


def select(ev, idx):
    idx = np.asarray(idx, dtype=int)
    out = {}
    for k, v in ev.items():
        if k == "trace":
            out[k] = {t: a[idx] for t, a in v.items()}
        elif k == "contour":
            out[k] = [v[i] for i in idx]
        else:
            out[k] = v[idx]
    return out


def nevents(ev):
    for k, v in ev.items():
        if k == "trace":
            return len(next(iter(v.values())))
        return len(v)
    return 0


def complete_meta(n, fl=True, run_id="vf-run-0001", date="2020-01-02",
                  time="12:00:00", run_index=1, medium="CellCarrier",
                  temperature=23.5):
    meta = {
        "experiment": {
            "date": date, "event count": n, "run index": run_index,
            "sample": "vf sample µ", "time": time,
            "run identifier": run_id},
        "imaging": {
            "flash device": "LED", "flash duration": 2.0,
            "frame rate": 2000.0, "pixel size": 0.34,
            "roi position x": 10, "roi position y": 20,
            "roi size x": IMG_SHAPE[1], "roi size y": IMG_SHAPE[0]},
        "setup": {
            "channel width": 20.0, "chip region": "channel",
            "flow rate": 0.04, "flow rate sample": 0.01,
            "flow rate sheath": 0.03, "identifier": "vf-setup",
            "medium": medium, "module composition": "Cell_Flow_2, Fluor",
            "software version": "ShapeIn 2.2.2.4", "temperature": temperature},
    }
    if fl:
        meta["fluorescence"] = {
            "bit depth": 16, "channel count": 1, "channels installed": 1,
            "laser count": 1, "lasers installed": 1, "sample rate": 312500,
            "samples per event": TRACE_LEN, "signal max": 1.0,
            "signal min": -1.0, "trace median": 0,
            "channel 1 name": "FL1", "laser 1 lambda": 488.0,
            "laser 1 power": 5.0}
    return meta


@contextlib.contextmanager
def chunk_bytes(nbytes):
    """Temporarily set the writer's chunk size (documented module global)."""
    from dclab.rtdc_dataset import writer
    old = writer.CHUNK_SIZE_BYTES
    writer.CHUNK_SIZE_BYTES = nbytes
    try:
        yield
    finally:
        writer.CHUNK_SIZE_BYTES = old


def store_events(hw, ev, split_trace=False):
    """split_trace: one store_feature call per trace name (same result in
    every writer mode: replace mode replaces only the traces it is given)."""
    for feat, data in ev.items():
        if feat == USER_FEAT:
            hw.store_feature(feat, data, shape=USER_SHAPE)
        elif feat == "trace" and split_trace:
            for name in data:
                hw.store_feature(feat, {name: data[name]})
        else:
            hw.store_feature(feat, data)


def write_rtdc(path, ev, meta=None, logs=None, tables=None, parts=None,
               compression=None):
    """Write events (optionally in successive appends) with the real writer."""
    from dclab.rtdc_dataset.writer import RTDCWriter
    n = nevents(ev)
    kw = {}
    if compression is not None:
        kw["compression_kwargs"] = compression
    with RTDCWriter(path, mode="reset", **kw) as hw:
        if meta is None:
            meta = complete_meta(n, fl="trace" in ev or "fl1_max" in ev)
        hw.store_metadata(meta)
        pos = 0
        for p in (parts or [n]):
            if p:
                store_events(hw, take(ev, pos, pos + p))
            pos += p
        for name, lines in (logs or {}).items():
            hw.store_log(name, lines)
        for name, tab in (tables or {}).items():
            hw.store_table(name, tab)
    return path


def arrays_equal(a, b):
    a = np.asarray(a)
    b = np.asarray(b)
    if a.shape != b.shape:
        return False
    if a.dtype.kind in "fc" or b.dtype.kind in "fc":
        fa = a.astype(np.float64)
        fb = b.astype(np.float64)
        if not np.array_equal(fa, fb, equal_nan=True):
            return False
        ok = ~np.isnan(fa)
        return bool(np.array_equal(np.signbit(fa[ok]), np.signbit(fb[ok])))
    return bool(np.array_equal(a, b))
