"""Engine E2: fault-point enumeration.

Seams are installed by monkeypatching in the (forked) harness process.  A
counting run numbers the K seam crossings of a scenario; then for every
k in 1..K the scenario is re-run in a forked child in which the k-th crossing
(a) raises OSError(EIO) or (b) is preceded by os._exit (what a kill does: no
finally blocks, no HDF5 flush).
"""
import errno
import os
import pathlib
import pickle
import sys
import traceback

KILL_CODE = 77


class Seams:
    def __init__(self, target=None, kind=None, second=None):
        self.count = 0
        self.target = target
        self.kind = kind
        self.second = second      # optional second fault (error kind only)
        self.trace = []
        self.saved = []
        self.fired = []

    def cross(self, name):
        self.count += 1
        self.trace.append(name)
        if self.target is not None and self.count == self.target:
            self.fired.append((self.count, name))
            if self.kind == "kill":
                os._exit(KILL_CODE)
            raise OSError(errno.EIO, f"injected I/O error at crossing "
                                     f"{self.count} ({name})")
        if self.second is not None and self.count == self.second:
            self.fired.append((self.count, name))
            raise OSError(errno.EIO, f"injected second I/O error at crossing "
                                     f"{self.count} ({name})")

    def _wrap_method(self, cls, attr, label):
        orig = getattr(cls, attr)
        seams = self

        def wrapper(self_, *a, **kw):
            seams.cross(label)
            return orig(self_, *a, **kw)
        wrapper.__name__ = attr
        self.saved.append((cls, attr, orig))
        setattr(cls, attr, wrapper)

    def install(self):
        import h5py
        import h5py.h5o
        G = h5py.Group
        self._wrap_method(G, "create_dataset", "Group.create_dataset")
        self._wrap_method(G, "create_group", "Group.create_group")
        self._wrap_method(G, "require_group", "Group.require_group")
        self._wrap_method(G, "__delitem__", "Group.__delitem__")
        self._wrap_method(G, "__setitem__", "Group.__setitem__")
        self._wrap_method(h5py.Dataset, "__setitem__", "Dataset.__setitem__")
        self._wrap_method(h5py.Dataset, "resize", "Dataset.resize")
        self._wrap_method(h5py.AttributeManager, "__setitem__",
                          "attrs.__setitem__")
        self._wrap_method(h5py.AttributeManager, "create", "attrs.create")
        self._wrap_method(h5py.File, "close", "File.close")
        self._wrap_method(pathlib.Path, "rename", "Path.rename")
        self._wrap_method(pathlib.Path, "unlink", "Path.unlink")
        orig_copy = h5py.h5o.copy
        seams = self

        def copy(*a, **kw):
            seams.cross("h5o.copy")
            return orig_copy(*a, **kw)
        self.saved.append((h5py.h5o, "copy", orig_copy))
        h5py.h5o.copy = copy

    def uninstall(self):
        for obj, attr, orig in reversed(self.saved):
            setattr(obj, attr, orig)
        self.saved = []


def run_child(scenario, target=None, kind=None, second=None):
    """Run scenario() in a forked child with the given fault.

    Returns dict(status='ok'|'raised'|'killed'|'crashed', count, exc, trace).
    """
    sys.stdout.flush()
    sys.stderr.flush()
    r, w = os.pipe()
    pid = os.fork()
    if pid == 0:
        os.close(r)
        code = 0
        try:
            devnull = os.open(os.devnull, os.O_WRONLY)
            os.dup2(devnull, 1)
            seams = Seams(target, kind, second)
            seams.install()
            res = {"status": "ok", "exc": None}
            try:
                scenario()
            except BaseException as e:
                res = {"status": "raised",
                       "exc": f"{type(e).__name__}: {e}"[:300]}
            seams.uninstall()
            res["count"] = seams.count
            res["fired"] = seams.fired
            res["trace"] = seams.trace if target is None else None
            os.write(w, pickle.dumps(res))
        except BaseException:
            try:
                os.write(w, pickle.dumps(
                    {"status": "crashed", "exc": traceback.format_exc(),
                     "count": -1, "fired": [], "trace": None}))
            except Exception:
                pass
            code = 3
        finally:
            if os.environ.get("VERIF_COV") and target is None:
                # anchor-coverage audit: the fault-free counting runs
                # stand for what the scenarios execute
                try:
                    import coverage
                    cov = coverage.Coverage.current()
                    if cov is not None:
                        cov.stop()
                        cov.save()
                except Exception:
                    pass
            os._exit(code)
    os.close(w)
    data = b""
    while True:
        chunk = os.read(r, 1 << 16)
        if not chunk:
            break
        data += chunk
    os.close(r)
    _, st = os.waitpid(pid, 0)
    if os.WIFEXITED(st) and os.WEXITSTATUS(st) == KILL_CODE:
        return {"status": "killed", "count": target, "exc": None,
                "fired": [(target, "?")], "trace": None}
    if not data:
        return {"status": "crashed", "exc": f"child died, wait status {st}",
                "count": -1, "fired": [], "trace": None}
    return pickle.loads(data)
