"""Self-tests of the harness: the explorer must find a planted bug at the
expected depth, merge states correctly, and the runner must reject a
nondeterministic driver.  Also stamps the extension hashes."""
import sys

from . import explore, extbuild
from .runner import violation


class Counter(explore.Driver):
    """Toy: two counters; planted bug: state (2,1) is 'bad'."""
    name = "toy"

    def fresh(self):
        return {"a": 0, "b": 0}

    def ops(self, st):
        return [(["a"], 0), (["b"], 1)]

    def apply(self, st, op):
        st[op[0]] += 1
        return (st["a"], st["b"])

    def check(self, st):
        if st == {"a": 2, "b": 1}:
            return [violation("toy:apply", "bad-state", None, "planted")]
        return []

    def canon(self, st):
        return (st["a"], st["b"])


def main():
    notes = extbuild.ensure_extensions()
    for n in notes:
        print("ext:", n)
    # deviation bound 0: b never taken -> no violation, 4 states at depth 3
    s, v = explore.bfs(Counter(), max_depth=3, max_dev=0, workers=2)
    assert not v and s["states"] == 4, (s, v)
    # deviation bound 1: planted bug found, shortest history has length 3
    s, v = explore.bfs(Counter(), max_depth=3, max_dev=1, workers=2)
    assert v and min(len(x["case"]["history"]) for x in v) == 3, (s, v)
    # merging: (a,b) reachable by 3 orders but counted once
    assert s["merged_by_canon"] > 0
    # replay reproduces
    again = explore.replay(Counter(), v[0]["case"])
    assert again and again[0]["symptom"] == "bad-state"
    print("selftest ok:", {k: s[k] for k in ("states", "transitions")})


if __name__ == "__main__":
    sys.exit(main())
