"""Engine E1: explicit-state breadth-first exploration of the real code.

A state *is* the operation history that reaches it; live objects are never
copied: a successor is built by replaying ``history + [op]`` on a fresh
system-under-test.  States are merged through the driver's ``canon``.
Bounds: depth and number of deviations (ops flagged dev=1).
"""
import hashlib
import pickle

from . import par


_TOKENS = __import__("itertools").count()


def unique_token():
    """A canonical form that merges with nothing (used when a driver cannot
    read the internals it normally merges on, e.g. after a refactoring of
    dclab): ids of live objects may be re-used, a counter is not."""
    import os
    return ("unmerged", os.getpid(), next(_TOKENS))


class Driver:
    """Interface a property driver implements."""
    name = "driver"
    #: check() may be destructive.  Drivers whose check *needs* to finish the
    #: SUT before it can be canonicalised (closing a file) keep True; drivers
    #: whose check perturbs the state (fills caches) set False so that the
    #: canonical form describes the state the history produced.
    canon_after_check = True

    def fresh(self):
        """Return a new state object (real SUT + reference model)."""
        raise NotImplementedError

    def ops(self, st):
        """List of (op, dev) enabled in st; op is a JSON-able list."""
        raise NotImplementedError

    def apply(self, st, op):
        """Perform op on the real objects and the model. Return observation."""
        raise NotImplementedError

    def check(self, st):
        """Invariant: list of violation dicts for the current state."""
        return []

    def canon(self, st):
        """Hashable canonical form of the implementation state."""
        raise NotImplementedError

    def close(self, st):
        pass

    def config(self):
        return {}

    def blocking(self, viol):
        """Whether exploration stops at a state showing this violation.

        Successors of a violating state mostly repeat the violation; drivers
        return False for recorded findings that must not hide what lies
        beyond them."""
        return True


def digest(obj):
    return hashlib.sha1(pickle.dumps(obj, protocol=4)).hexdigest()[:20]


def run_history(driver, history):
    """Replay a history on a fresh SUT and check the final state.

    Prefix states are not re-checked (``check`` may be destructive, e.g. it
    may close a file to inspect it); BFS has checked them before.
    """
    st = driver.fresh()
    obs = []
    for op in history:
        obs.append(driver.apply(st, op))
    viols = driver.check(st)
    return st, obs, viols


def build(driver, history):
    st = driver.fresh()
    for op in history:
        driver.apply(st, op)
    return st


def _expand(args):
    driver, history, devs, max_dev = args
    st = build(driver, history)
    try:
        menu = driver.ops(st)
    finally:
        driver.close(st)
    out = []
    for op, dev in menu:
        if devs + dev > max_dev:
            continue
        h2 = history + [op]
        st2 = driver.fresh()
        try:
            for o in history:
                driver.apply(st2, o)
            ob = driver.apply(st2, op)
            if driver.canon_after_check:
                viols = driver.check(st2)
                key = digest(driver.canon(st2))
            else:
                key = digest(driver.canon(st2))
                viols = driver.check(st2)
        finally:
            driver.close(st2)
        for v in viols:
            v["case"] = {"driver": driver.name, "config": driver.config(),
                         "history": h2}
        out.append((op, dev, key, digest(ob), viols))
    return out


def bfs(driver, max_depth, max_dev=0, workers=None, log=None,
        max_states=None):
    """Exhaustive BFS up to max_depth / max_dev. Returns a stats dict."""
    st0 = driver.fresh()
    if driver.canon_after_check:
        v0 = driver.check(st0)
        k0 = digest(driver.canon(st0))
    else:
        k0 = digest(driver.canon(st0))
        v0 = driver.check(st0)
    driver.close(st0)
    seen = {k0: 0}          # canon -> fewest deviations it was reached with
    frontier = [([], 0)]
    stats = {"states": 1, "transitions": 0, "max_depth": 0,
             "merged_by_canon": 0, "per_depth": [1],
             "deviation_bound": max_dev, "depth_bound": max_depth,
             "exhaustive": True, "violating_states": 0}
    obs_seen = set()
    violations = []
    for v in v0:
        v["case"] = {"driver": driver.name, "config": driver.config(),
                     "history": []}
        violations.append(v)
    samples = []
    depth = 0
    while frontier and depth < max_depth:
        depth += 1
        items = [(driver, h, d, max_dev) for h, d in frontier]
        results = par.pmap(_expand, items, workers=workers)
        nxt = []
        new_states = 0
        for (h, d), res in zip(frontier, results):
            for op, dev, key, ob, viols in res:
                stats["transitions"] += 1
                obs_seen.add(ob)
                nd = d + dev
                if viols:
                    violations.extend(viols)
                    stats["violating_states"] += 1
                    if any(driver.blocking(v) for v in viols):
                        continue  # do not expand beyond a violating state
                if key in seen and seen[key] <= nd:
                    stats["merged_by_canon"] += 1
                    continue
                if key not in seen:
                    new_states += 1
                seen[key] = nd
                nxt.append((h + [op], nd))
        stats["states"] += new_states
        stats["per_depth"].append(new_states)
        if nxt:
            stats["max_depth"] = depth
            samples.append(nxt[len(nxt) // 2][0])
        if log:
            log(f"{driver.name}: depth {depth}: frontier {len(frontier)} -> "
                f"{len(nxt)} new, states {stats['states']}, transitions "
                f"{stats['transitions']}, violations {len(violations)}")
        frontier = nxt
        if max_states and stats["states"] > max_states:
            stats["exhaustive"] = False
            stats["cap_hit"] = f"max_states={max_states} at depth {depth}"
            break
    stats["distinct_observations"] = len(obs_seen)
    stats["frontier_left"] = len(frontier)
    stats["samples"] = samples[:1] + samples[-2:]
    stats["traces_validated_against_impl"] = stats["transitions"]
    return stats, violations


def replay(driver, case):
    """Replay a recorded history without the explorer; return violations."""
    st, obs, viols = run_history(driver, case["history"])
    driver.close(st)
    for v in viols:
        v["case"] = {"driver": driver.name, "config": driver.config(),
                     "history": case["history"]}
    return viols


def merge_stats(parts):
    """Combine stats from several independent explorations (configs)."""
    out = {"states": 0, "transitions": 0, "max_depth": 0,
           "merged_by_canon": 0, "distinct_observations": 0,
           "traces_validated_against_impl": 0, "exhaustive": True,
           "violating_states": 0, "samples": [], "runs": [],
           # runs whose frontier ran empty before the depth bound: every
           # state reachable within the deviation bound was visited, so the
           # verdict holds for histories of any length (as far as the
           # canonical form is sound)
           "runs_closed": 0}
    for name, s in parts:
        for k in ("states", "transitions", "merged_by_canon",
                  "distinct_observations", "traces_validated_against_impl",
                  "violating_states"):
            out[k] += s[k]
        out["max_depth"] = max(out["max_depth"], s["max_depth"])
        out["exhaustive"] = out["exhaustive"] and s["exhaustive"]
        out["samples"].extend({"run": name, "history": h}
                              for h in s["samples"][:2])
        out["runs"].append({"run": name, "states": s["states"],
                            "transitions": s["transitions"],
                            "per_depth": s["per_depth"],
                            "depth_bound": s["depth_bound"],
                            "deviation_bound": s["deviation_bound"],
                            "distinct_observations":
                                s["distinct_observations"],
                            "frontier_left": s.get("frontier_left"),
                            "cap_hit": s.get("cap_hit")})
        if s.get("frontier_left") == 0 and not s.get("cap_hit"):
            out["runs_closed"] += 1
    return out
