"""One large input per vectorised entry point.

The exhaustive small-scope cases never cross thresholds that only exist at
scale (row-wise chunking of exporters, HDF5 chunk boundaries of scalar
features at 131072 events, block-wise filters).  This module builds one
30000-event scalar measurement whose expected results are known by
construction and pushes it through the writer, the filter, the exporter (with
basins), the copier and split/join.  Every property that owns one of these
entry points calls :func:`violations` with its identifier.
"""
import os
import shutil

import numpy as np

from . import gen
from .runner import violation

N = 30000
PARTS = [10000, 15000, 5000]


def data():
    rs = np.random.RandomState(77)
    ev = {
        "area_um": np.round(rs.uniform(20, 400, N), 3),
        "deform": np.round(rs.uniform(0.001, 0.2, N), 5),
        "bright_avg": np.round(rs.normal(100, 10, N), 2),
        "frame": np.cumsum(rs.randint(1, 4, N)).astype(np.int64),
        "index_online": np.arange(3, N + 3, dtype=np.int64),
    }
    # one image-like feature: 48 bytes per event, i.e. one HDF5 chunk
    # boundary (1 MiB) inside the measurement
    ev["image"] = rs.randint(0, 255, (N,) + gen.IMG_SHAPE).astype(np.uint8)
    ev["deform"][12000:12500] = np.nan          # a whole stretch
    ev["deform"][[0, N - 1]] = np.nan
    ev["bright_avg"][:PARTS[0]] = np.nan        # an all-NaN first append
    return ev


def _write(path, ev):
    gen.write_rtdc(path, ev, parts=PARTS,
                   meta=gen.complete_meta(N, fl=False))


def expected_mask(ev):
    m = (ev["area_um"] >= 50.0) & (ev["area_um"] <= 300.0)
    m &= np.arange(N) % 3 != 0                  # manual exclusions
    m &= ~np.isnan(ev["deform"]) & ~np.isnan(ev["bright_avg"])
    m[20000:25000] = False                      # a long excluded stretch
    return m


def _set_filter(ds):
    ds.config["filtering"]["area_um min"] = 50.0
    ds.config["filtering"]["area_um max"] = 300.0
    ds.config["filtering"]["remove invalid events"] = True
    man = np.arange(N) % 3 != 0
    man[20000:25000] = False
    ds.filter.manual[:] = man
    ds.apply_filter()


def violations(prop, scratch):
    """Violations of property `prop` found on the large measurement."""
    import dclab
    from dclab import cli
    d = scratch / f"big_{prop}_{os.getpid()}"
    if d.exists():
        shutil.rmtree(d)
    d.mkdir()
    out = []
    case = {"kind": "big", "n": N}

    def bad(where, symptom, detail, **tags):
        out.append(violation(where, symptom, case, detail,
                             dict(tags, big=True)))

    def same(a, b):
        return gen.arrays_equal(np.asarray(a), np.asarray(b))

    def stats_ok(ds, feats, where, what):
        for f in feats:
            arr = np.asarray(ds[f][:], float)
            for st, fn in (("min", np.nanmin), ("max", np.nanmax),
                           ("mean", np.nanmean)):
                got = float(getattr(ds[f], st)())
                exp = float(fn(arr))
                if not (np.isclose(got, exp, rtol=1e-9, atol=0)
                        or (np.isnan(got) and np.isnan(exp))):
                    bad(where, "wrong-summary",
                        f"{what}: {f}.{st}() = {got!r}, data give {exp!r}",
                        stat=st, feat=f)
    ev = data()
    src = d / "src.rtdc"
    try:
        _write(src, ev)
        feats = list(ev)
        if prop in ("C01", "C20"):
            with dclab.new_dataset(src) as ds:
                if prop == "C01":
                    if len(ds) != N:
                        bad("dclab.rtdc_dataset.writer:RTDCWriter",
                            "wrong-length", f"{len(ds)} != {N}")
                    for f in feats:
                        if not same(ds[f][:], ev[f]):
                            bad("dclab.rtdc_dataset.writer:RTDCWriter."
                                "write_ndarray", "wrong-data-dclab",
                                f"{f} written in appends of {PARTS}",
                                feat=f)
                else:
                    stats_ok(ds, [f for f in feats if f != "image"],
                             "dclab.rtdc_dataset.writer:"
                             "RTDCWriter.write_ndarray", "appends")
        if prop in ("C03", "C02", "C07", "C08", "C20"):
            mask = expected_mask(ev)
            sel = np.flatnonzero(mask)
            with dclab.new_dataset(src) as ds:
                _set_filter(ds)
                if prop == "C03":
                    if not np.array_equal(ds.filter.all, mask):
                        diff = np.flatnonzero(ds.filter.all != mask)
                        bad("dclab.rtdc_dataset.filter:Filter.update",
                            "wrong-selection",
                            f"{N} events: {len(diff)} differ from the "
                            f"reference mask, first at {diff[:3].tolist()}",
                            array="all")
                    # limit: a subset of the selection of the right size
                    ds.config["filtering"]["limit events"] = 1000
                    ds.apply_filter()
                    got = np.array(ds.filter.all)
                    if got.sum() != 1000 or (got & ~mask).any():
                        bad("dclab.rtdc_dataset.filter:Filter.update",
                            "wrong-selection",
                            f"limit 1000 of {mask.sum()}: {got.sum()} "
                            f"selected, {(got & ~mask).sum()} outside",
                            array="all", case_="limit")
                if prop in ("C02", "C07", "C08", "C20"):
                    exp_p = d / "exp.rtdc"
                    ds.export.hdf5(exp_p, features=["deform", "frame",
                                                    "image"],
                                   filtered=True, basins=True)
            if prop in ("C02", "C07", "C08", "C20"):
                with dclab.new_dataset(exp_p) as de:
                    if prop == "C02":
                        if len(de) != len(sel):
                            bad("dclab.rtdc_dataset.export:Export.hdf5",
                                "wrong-length", f"{len(de)} != {len(sel)}")
                        for f in ("deform", "frame", "image"):
                            if not same(de[f][:], ev[f][sel]):
                                bad("dclab.rtdc_dataset.export:Export.hdf5",
                                    "wrong-feature-data",
                                    f"{f} of a filtered export of {N} "
                                    f"events", feat=f)
                    if prop == "C07":
                        for f in ("area_um", "bright_avg", "index_online"):
                            ok = f in de and same(de[f][:], ev[f][sel]) \
                                and same(de[f][5000:5010],
                                         ev[f][sel][5000:5010]) \
                                and same(de[f][len(sel) - 1],
                                         ev[f][sel][-1])
                            if not ok:
                                bad("dclab.rtdc_dataset.feat_basin:"
                                    "BasinProxyFeature.__getitem__",
                                    "wrong-data", f"{f} through a mapped "
                                    f"basin of {len(sel)} of {N} events",
                                    feat=f)
                    if prop == "C20":
                        stats_ok(de, ["deform", "frame", "area_um",
                                      "bright_avg"],
                                 "dclab.rtdc_dataset.export:Export.hdf5",
                                 "filtered export (+ basin features)")
                if prop in ("C08", "C20"):
                    for task in ("compress", "repack", "condense"):
                        q = d / f"{task}.rtdc"
                        getattr(cli, task)(path_in=src, path_out=q)
                        with dclab.new_dataset(q) as dq:
                            if prop == "C08":
                                for f in feats:
                                    if task == "condense" and f == "image":
                                        continue     # scalar features only
                                    if f not in dq or not same(dq[f][:],
                                                               ev[f]):
                                        bad(f"dclab.cli.task_{task}:{task}",
                                            "wrong-data", f"{f} of a "
                                            f"{N}-event file", task=task,
                                            kind="scalar")
                            else:
                                stats_ok(dq, [f for f in feats
                                              if f != "image"],
                                         "dclab.rtdc_dataset."
                                         "copier:rtdc_copy", task)
                        q.unlink()
        if prop == "C09":
            parts = cli.split(path_in=src, path_out=d / "parts",
                              split_events=12000, ret_out_paths=True)
            lens = []
            for p_ in parts:
                with dclab.new_dataset(p_) as dp:
                    lens.append(len(dp))
            if sum(lens) != N or max(lens) > 12000:
                bad("dclab.cli.task_split:split", "wrong-part-data",
                    f"parts of {lens} events for {N} / 12000", feat="count")
            joined = d / "joined.rtdc"
            cli.join(paths_in=list(parts), path_out=joined)
            with dclab.new_dataset(joined) as dj:
                for f in ("area_um", "deform", "bright_avg", "frame",
                          "image"):
                    if f not in dj or not same(dj[f][:], ev[f]):
                        bad("dclab.cli.task_join:join", "roundtrip-differs",
                            f"{f} after split(12000)+join of {N} events",
                            feat=f, roundtrip=True)
    except Exception as e:
        import traceback
        bad("dclab", "exception",
            f"{type(e).__name__}: {e}\n{traceback.format_exc()[-600:]}",
            exc=type(e).__name__)
    finally:
        shutil.rmtree(d, ignore_errors=True)
    return out
