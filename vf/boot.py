"""Process bootstrap: version stub, scratch directory, determinism knobs.

Must be imported before ``dclab``.
"""
import atexit
import os
import pathlib
import shutil
import sys
import types
import warnings

REPO = pathlib.Path(os.environ.get("VERIF_REPO", "/repo"))
VERIF = pathlib.Path(__file__).resolve().parent.parent

#: version string branded into files; an untagged build would write
#: "0.0.post1+g..." which RTDC_HDF5 refuses to re-open (environment, not code
#: under test).
STUB_VERSION = "0.62.7"


def install_version_stub():
    if "dclab" in sys.modules:
        raise RuntimeError("vf.boot must be imported before dclab")
    mod = types.ModuleType("dclab._version")
    mod.version = mod.__version__ = STUB_VERSION
    mod.version_tuple = mod.__version_tuple__ = (0, 62, 7)
    mod.commit_id = mod.__commit_id__ = None
    sys.modules["dclab._version"] = mod


_scratch = None
_owner_pid = None


def scratch():
    """Per-process-tree scratch directory (tmpfs when available)."""
    global _scratch, _owner_pid
    if _scratch is None:
        base = pathlib.Path("/dev/shm")
        if not (base.is_dir() and os.access(base, os.W_OK)):
            base = pathlib.Path(os.environ.get("TMPDIR", "/tmp"))
        _scratch = base / f"vf-{os.getpid()}"
        _scratch.mkdir(parents=True, exist_ok=True)
        _owner_pid = os.getpid()
        atexit.register(_cleanup)
    return _scratch


def _cleanup():
    if _scratch is not None and os.getpid() == _owner_pid:
        shutil.rmtree(_scratch, ignore_errors=True)


def boot():
    # make sure the working tree of /repo is what gets imported
    if str(REPO) not in sys.path:
        sys.path.insert(0, str(REPO))
    install_version_stub()
    warnings.simplefilter("ignore")
    os.environ.setdefault("HDF5_USE_FILE_LOCKING", "FALSE")
    import dclab  # noqa: F401
    here = pathlib.Path(dclab.__file__).resolve()
    if REPO.resolve() not in here.parents:
        raise RuntimeError(f"dclab imported from {here}, expected {REPO}")
    return dclab
