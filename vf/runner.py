"""Command line runner: ./check <ID> [--tier quick|thorough] [--replay FILE]

Exit codes: 0 property held on everything explored (known findings are printed
as KNOWN-FINDING lines), 1 violation (VIOLATION line per distinct signature),
2 harness error (nondeterminism, vacuous exploration, worker crash).
"""
import argparse
import hashlib
import importlib
import json
import os
import pathlib
import sys
import time
import traceback

from . import boot

VERIF = boot.VERIF
LEVELS = ("exploration", "fault_enumeration", "model_checking", "proof",
          "translation_validation", "other")


class HarnessError(Exception):
    pass


class Ctx:
    def __init__(self, prop, tier, seed):
        self.prop = prop
        self.tier = tier
        self.seed = seed
        self.t0 = time.time()
        self.quick = tier == "quick"
        self.thorough = tier == "thorough"

    @property
    def scratch(self):
        return boot.scratch()

    def log(self, *a):
        print(f"[{self.prop} {time.time() - self.t0:6.1f}s]", *a,
              file=sys.stderr, flush=True)


def jsonable(o):
    import numpy as np
    if isinstance(o, dict):
        return {str(k): jsonable(v) for k, v in o.items()}
    if isinstance(o, (list, tuple, set, frozenset)):
        return [jsonable(v) for v in o]
    if isinstance(o, np.ndarray):
        return jsonable(o.tolist())
    if isinstance(o, (np.bool_,)):
        return bool(o)
    if isinstance(o, np.integer):
        return int(o)
    if isinstance(o, np.floating):
        o = float(o)
    if isinstance(o, float):
        if o != o:
            return "nan"
        if o in (float("inf"), float("-inf")):
            return "inf" if o > 0 else "-inf"
        return o
    if isinstance(o, bytes):
        return {"__bytes__": o.hex()}
    if isinstance(o, pathlib.PurePath):
        return str(o)
    if o is None or isinstance(o, (str, int, bool)):
        return o
    return repr(o)


def violation(where, symptom, case, detail="", tags=None):
    """Build a violation record.

    where:   "<module>:<function>" of the dclab call site that misbehaves
    symptom: short class of wrong behaviour (exception type / wrong-value class)
    case:    JSON-able replayable description (history / input)
    tags:    small dict describing the input class (used by known findings)
    """
    return {"where": where, "symptom": symptom, "case": jsonable(case),
            "detail": str(detail)[:2000], "tags": jsonable(tags or {})}


def signature(v):
    return f"{v['where']}|{v['symptom']}|" + json.dumps(v["tags"],
                                                        sort_keys=True)


def load_findings(prop):
    path = VERIF / "known_findings.json"
    if not path.exists():
        return []
    data = json.loads(path.read_text())
    return [e for e in data.get("findings", []) if e.get("property") == prop]


def match_finding(v, findings):
    for e in findings:
        if e.get("status") != "open":
            continue
        if e["where"] != v["where"] or e["symptom"] != v["symptom"]:
            continue
        when = e.get("when", {})
        if all(v["tags"].get(k) == val for k, val in when.items()):
            return e
    return None


def write_evidence(prop, tier, seed, level, coverage, assumptions, wall,
                   nviol, extra=None):
    ev = {"property_id": prop, "tier": tier, "seed": seed, "level": level,
          "coverage": jsonable(coverage),
          "assumptions": list(assumptions),
          "wall_s": round(wall, 3), "violations": int(nviol)}
    if extra:
        ev.update(jsonable(extra))
    # evidence/ describes runs against /repo; a run against another tree
    # (VERIF_REPO: seeded changes in scratch worktrees) must not replace it
    if os.environ.get("VERIF_EVIDENCE_DIR"):
        edir = pathlib.Path(os.environ["VERIF_EVIDENCE_DIR"])
    elif str(boot.REPO) != "/repo":
        edir = VERIF / ".build" / "evidence-other-tree"
    else:
        edir = VERIF / "evidence"
    out = edir / f"{prop}.json"
    out.parent.mkdir(parents=True, exist_ok=True)
    tmp = out.with_suffix(".json.tmp")
    tmp.write_text(json.dumps(ev, indent=1, sort_keys=True) + "\n")
    tmp.replace(out)
    return out


def _second_run_signatures(prop, ctx):
    """Run the same exploration once more in a fresh interpreter and return
    the set of violation signatures (None if that run failed)."""
    import subprocess
    import tempfile
    with tempfile.TemporaryDirectory(dir=str(boot.scratch())) as td:
        out = pathlib.Path(td) / "sigs.json"
        cmd = [sys.executable, "-m", "vf.runner", prop, "--tier", ctx.tier,
               "--seed", str(ctx.seed), "--dump-signatures", str(out)]
        r = subprocess.run(cmd, cwd=str(VERIF), capture_output=True,
                           text=True)
        if r.returncode != 0 or not out.exists():
            return None
        return set(json.loads(out.read_text()))


def main(argv=None):
    ap = argparse.ArgumentParser(prog="check")
    ap.add_argument("prop")
    ap.add_argument("--tier", default=os.environ.get("VERIF_TIER", "quick"),
                    choices=["quick", "thorough"])
    ap.add_argument("--replay", default=None)
    ap.add_argument("--seed", type=int,
                    default=int(os.environ.get("VERIF_SEED", "0") or 0))
    # internal: run the exploration only and write the set of violation
    # signatures to a file (used to confirm history-dependent violations)
    ap.add_argument("--dump-signatures", default=None)
    args = ap.parse_args(argv)
    prop = args.prop.upper()
    t0 = time.time()
    try:
        from . import extbuild
        ext_notes = extbuild.ensure_extensions()
        boot.boot()
        mod = importlib.import_module(f"vf.props.{prop.lower()}")
    except Exception:
        traceback.print_exc()
        print(f"HARNESS-ERROR property={prop} bootstrap failed")
        return 2
    ctx = Ctx(prop, args.tier, args.seed)
    findings = load_findings(prop)

    if args.replay:
        case = json.loads(pathlib.Path(args.replay).read_text())
        try:
            vs = mod.replay(case["case"], ctx)
        except Exception:
            traceback.print_exc()
            print(f"HARNESS-ERROR property={prop} replay crashed")
            return 2
        bad = 0
        for v in vs:
            e = match_finding(v, findings)
            if e:
                print(f"KNOWN-FINDING: property={prop} {e['title']}")
            else:
                bad += 1
                print(f"REPLAY-VIOLATION {signature(v)}\n  {v['detail']}")
        if bad:
            print(f"VIOLATION property={prop} replay={args.replay}")
            return 1
        print(f"OK property={prop} replay holds")
        return 0

    try:
        report = mod.run(ctx)
    except HarnessError as e:
        traceback.print_exc()
        print(f"HARNESS-ERROR property={prop} {e}")
        return 2
    except Exception as e:
        from . import par
        text = traceback.format_exc()
        in_sut = (isinstance(e, par.WorkerFailure) and e.in_sut) or (
            not isinstance(e, par.WorkerFailure)
            and par.classify_traceback(e.__traceback__))
        if in_sut:
            # The code under test raised where the driver did not expect
            # an exception: that is a behaviour of dclab, not a harness
            # defect.  Report it (the traceback is the artefact).
            rdir = VERIF / "replays" / prop
            rdir.mkdir(parents=True, exist_ok=True)
            h = hashlib.sha1(text.encode()).hexdigest()[:12]
            rpath = rdir / f"unhandled-{h}.txt"
            rpath.write_text(text)
            last = [ln for ln in text.strip().splitlines() if ln.strip()][-1]
            write_evidence(prop, ctx.tier, ctx.seed,
                           getattr(mod, "LEVEL", "exploration"),
                           {"evaluations": 1, "distinct_nontrivial": 2,
                            "rule": "run aborted by an exception raised "
                                    "inside dclab", "samples": [last[:300]],
                            "states": 1, "transitions": 1,
                            "traces_validated_against_impl": 0,
                            "exhaustive": False},
                           ["aborted run"], time.time() - t0, 1)
            print(text[-3000:], file=sys.stderr)
            print(f"VIOLATION property={prop} replay={rpath}")
            print(f"  unhandled exception raised inside dclab: {last[:300]}")
            print(f"FAIL property={prop} tier={ctx.tier} seed={ctx.seed} "
                  f"(aborted)")
            return 1
        traceback.print_exc()
        print(f"HARNESS-ERROR property={prop} check crashed")
        return 2

    coverage = report["coverage"]
    if ext_notes:
        coverage["extension_notes"] = ext_notes
    violations = report.get("violations", [])
    if args.dump_signatures:
        pathlib.Path(args.dump_signatures).write_text(json.dumps(
            sorted({signature(v) for v in violations})))
        return 0
    # group by signature, keep the first (shortest, thanks to BFS / simplest
    # first enumeration) of each
    groups = {}
    for v in violations:
        groups.setdefault(signature(v), []).append(v)
    known_hits = {}
    unmatched = []
    for sig, vs in groups.items():
        e = match_finding(vs[0], findings)
        if e:
            known_hits.setdefault(e["title"], [0, vs[0]])
            known_hits[e["title"]][0] += len(vs)
        else:
            unmatched.append((sig, vs))
    # determinism: every reported signature must reproduce from its artefact
    rc = 0
    lines = []
    second_run = None      # signatures of a second, independent full run
    try:
        for sig, vs in unmatched[:25]:
            v = vs[0]
            note = None
            for attempt in range(2):
                again = mod.replay(v["case"], ctx)
                if any(signature(a) == sig for a in again):
                    continue
                # The case does not fail on its own.  Either the harness is
                # not deterministic (an error of ours), or the violation
                # needs state that dclab carried over from earlier cases of
                # the same process (a memo, a registry).  Decide by running
                # the whole exploration again in a fresh process: if the
                # same signature shows up again it is a property of the code
                # under test, not of chance.
                if second_run is None:
                    second_run = _second_run_signatures(prop, ctx)
                if second_run is None or sig not in second_run:
                    raise HarnessError(
                        "nondeterminism: violation did not reproduce on "
                        f"replay {attempt + 1} nor in a second full run: "
                        f"{sig}\n{v['detail']}")
                note = ("fails in every full run, not when the case is "
                        "replayed alone: it depends on state dclab keeps "
                        "between the cases of one process; reproduce with "
                        "the check command itself")
                break
            h = hashlib.sha1(sig.encode()).hexdigest()[:12]
            rdir = VERIF / "replays" / prop
            rdir.mkdir(parents=True, exist_ok=True)
            rpath = rdir / f"{h}.json"
            rpath.write_text(json.dumps(
                {"property": prop, "signature": sig, "where": v["where"],
                 "symptom": v["symptom"], "tags": v["tags"],
                 "detail": v["detail"], "count": len(vs), "seed": ctx.seed,
                 "tier": ctx.tier, "case": v["case"],
                 "note": note}, indent=1) + "\n")
            lines.append(f"VIOLATION property={prop} replay={rpath}")
            lines.append(f"  {sig}  (x{len(vs)})\n  {v['detail'][:600]}")
            if note:
                lines.append(f"  note: {note}")
            rc = 1
        if len(unmatched) > 25:
            lines.append(f"  ... {len(unmatched) - 25} more signatures")
    except HarnessError as e:
        print(f"HARNESS-ERROR property={prop} {e}")
        rc = 2
    for title, (n, v) in known_hits.items():
        print(f"KNOWN-FINDING: property={prop} {title} (x{n})")
    coverage["known_finding_hits"] = {t: n for t, (n, _) in known_hits.items()}
    wall = time.time() - t0
    level = report.get("level", getattr(mod, "LEVEL", "exploration"))
    write_evidence(prop, ctx.tier, ctx.seed, level, coverage,
                   report.get("assumptions", []), wall, len(unmatched))
    for ln in lines:
        print(ln)
    vac = report.get("vacuous")
    if vac and rc == 0:
        print(f"HARNESS-ERROR property={prop} vacuous exploration: {vac}")
        rc = 2
    summ = {k: v for k, v in coverage.items()
            if isinstance(v, (int, float, bool))}
    print(f"{'OK' if rc == 0 else 'FAIL'} property={prop} tier={ctx.tier} "
          f"seed={ctx.seed} wall={wall:.1f}s {json.dumps(summ)}")
    return rc


if __name__ == "__main__":
    try:
        rc = main()
    except SystemExit:
        raise
    except BaseException:
        # a crash of the harness itself must never look like a verdict
        import traceback
        traceback.print_exc()
        print("HARNESS-ERROR the runner crashed (see traceback)")
        rc = 2
    sys.exit(rc)
