"""Registry of built checks (MANIFEST.json is generated from this)."""

ENGINES = [
    {"name": "E1-explore", "path": "vf/explore.py",
     "serves_properties": ["C01", "C03", "C04", "C06", "C17", "C19"],
     "kind_free_text": "explicit-state breadth-first exploration of operation "
     "histories on the real dclab objects; successor = replay of history+op "
     "on a fresh SUT; states merged by a canonical form of the "
     "implementation state; bounds on depth and deviations"},
]

ENGINES.append(
    {"name": "E3-enumerate", "path": "vf/props/",
     "serves_properties": ["C02", "C05", "C07", "C08", "C09", "C11", "C12", "C13", "C14", "C15", "C16", "C18", "C20"],
     "kind_free_text": "small-scope exhaustive enumerators (compositions, "
     "all boolean masks / NaN placements, option products) run against the "
     "real code with a reference oracle per case"})

ENGINES.append(
    {"name": "E2-faults", "path": "vf/faults.py",
     "serves_properties": ["C10"],
     "kind_free_text": "fault-point enumerator: seams (h5py group/dataset/"
     "attribute writes, h5o.copy, File.close, Path.rename/unlink) are "
     "monkeypatched in a forked child; a counting run numbers the crossings; "
     "every crossing is turned into EIO and into a process kill"})

NOTES = ("All checks run /repo's working tree directly (editable install; "
         "compiled extensions are rebuilt from their generated .c when that "
         "changes; Cython is not available so .pyx edits cannot be compiled). "
         "Exit codes: 0 held, 1 violation, 2 harness error.")

NOT_CLAIMED = {}

CHECKS = {
    "C03": {
        "engine": "E1-explore",
        "level": "model_checking",
        "technique": "explicit-state BFS over filter edit/apply histories on "
                     "the real Filter object vs. a stateless reference "
                     "evaluation",
        "text": "Every history of filter edits (ranges incl. reversed/equal "
                "bounds and removal, two polygon filters incl. inversion and "
                "vertex moves, invalid toggle, enable toggle, limits, manual "
                "exclusions, reset) with and without intermediate "
                "apply_filter up to depth 4 (quick) / 6 (thorough) and "
                "deviation bound 1-3 is executed on a real 8-event dataset; "
                "box, polygon, invalid and combined selections are compared "
                "with a stateless specification in every applied state.",
        "note": "alphabet: 8 events with NaN/inf/ties, 2 ranged features, 2 "
                "polygons with off-boundary finite query points; state "
                "merging uses Filter's private caches only for deduplication "
                "(falls back to history=state if they disappear)",
    },
    "C01": {
        "engine": "E1-explore",
        "level": "model_checking",
        "technique": "explicit-state BFS over writer call histories plus "
                     "exhaustive enumeration of append compositions on the "
                     "real RTDCWriter vs. an in-memory model",
        "text": "Every history (depth 3 quick / 4 thorough, deviation bound "
                "1) of {append k events to 11 feature kinds, store logs "
                "(short/unicode/over-long), tables (recarray/dict/mixed "
                "dtypes), metadata, re-open the writer in append/replace/"
                "reset} and every composition of N<=7 (quick) / 12 "
                "(thorough) events into successive appends (<=3 parts up to "
                "N=23, 10-event and 1 MiB chunks, with and without "
                "re-opening) is executed; the closed file is compared with "
                "the model through raw h5py and dclab.new_dataset.",
        "note": "one input dtype per feature; files up to 23 events; the "
                "model re-states the documented metadata types for the keys "
                "used; version brand stubbed to 0.62.7",
    },
    "C04": {
        "engine": "E1-explore",
        "level": "model_checking",
        "technique": "explicit-state BFS over hierarchy edit/refresh "
                     "histories on real RTDC_Hierarchy chains vs. a "
                     "root-index-set model",
        "text": "All histories (depth 3-4 quick / 4-5 thorough) of range "
                "edits on every level (equal-sized windows selecting "
                "different events), manual exclusions on every level, "
                "temporary-feature assignment, root frame-rate change, each "
                "with or without a refresh of the youngest member, on a "
                "3-level (thorough: also 4-level) hierarchy; after every "
                "refresh lengths, every feature kind (scalar, image, mask, "
                "contour, trace, computed time, temporary) and the manual "
                "arrays are compared with the model.",
        "note": "manual exclusions / temporary features are edited only in "
                "synchronised states; re-inclusion is explored only while "
                "another visible exclusion remains; 6 root events",
    },
    "C06": {
        "engine": "E1-explore",
        "level": "model_checking",
        "technique": "explicit-state BFS over configuration-edit/read "
                     "histories on a long-lived dataset vs. a freshly "
                     "constructed dataset (differential oracle)",
        "text": "From each documented emodulus scenario (A, B, C, a mixed "
                "one; with/without temp feature; stored or computed "
                "area_um; through a hierarchy child) and three crosstalk "
                "scenarios, all histories (depth 3 quick / 4 thorough) of "
                "set/change/delete of [calculation]/[imaging]/[setup] keys, "
                "feature reads, availability tests and temporary-feature "
                "assignment are executed; in every state availability and "
                "value/exception of every watched feature equal those of a "
                "fresh dataset, availability matches readability, and "
                "emodulus equals a direct get_emodulus call chosen by the "
                "documented precedence. Plus all 192 present/absent key "
                "combinations.",
        "note": "watched: emodulus, time, area_um, fl1-3_max_ctc, a "
                "temporary feature; 30-node registered LUTs; two deliberate "
                "dclab behaviours are listed as open known findings",
    },
    "C19": {
        "engine": "E1-explore",
        "level": "model_checking",
        "technique": "explicit-state BFS over seek/tell/read histories on "
                     "the real HTTPFile over an in-memory RFC 7233 host",
        "text": "For 7 resource lengths around multiples of the chunk size "
                "x chunk sizes {4,5,8} x keep_chunks {1,2,3} x server "
                "flavours, every seek(set/cur/end)/tell/read(n) history, "
                "reads beyond EOF as deviations (at most one): returned "
                "bytes, position and the cache bound are checked in every "
                "state. The search runs until no new state appears (depth "
                "7 of a bound of 10 in the quick grid; evidence field "
                "runs_closed = number of configurations whose reachable "
                "state set was exhausted), so within the alphabet the "
                "verdict holds for histories of any length. Thorough: "
                "chunk sizes {3,4,5,8}, 11 lengths, keep_chunks 1..4. Generated .rtdc files served "
                "by the fake host: RTDC_HTTP equals RTDC_HDF5 (features, "
                "metadata, logs, tables) for chunk sizes incl. a divisor of "
                "the file length. The same search runs on dclab's S3File "
                "(its own header parsing and range download) over a "
                "stand-in for the boto3 object; S3File built the regular "
                "way (boto3 session/resource) over an in-memory botocore "
                "transport is read around the 2**18-byte chunk boundaries "
                "and the end of 6 (8) objects, its availability probe is "
                "checked, and RTDC_S3 equals RTDC_HDF5 on generated files.",
        "note": "requests/sockets/botocore transport replaced by an "
                "in-memory host (harness process only); read(n) with "
                "n >= 0",
    },
    "C17": {
        "engine": "E1-explore",
        "level": "model_checking",
        "technique": "explicit-state BFS over call sequences of the "
                     "memoised functions (cache capacity 3) vs. the "
                     "undecorated functions",
        "text": "All call sequences (depth 3-5 quick / 4-6 thorough; the reachable cache states saturate at depth 4) over a "
                "pool of adversarially similar arguments (same bytes with "
                "other dtype, byte stream split differently between "
                "arguments, keyword vs positional, strided views, (1,0) vs "
                "(10,)) for kde_gauss/kde_histogram/kde_multivariate/"
                "downsample_grid, interleaved with in-place mutation of the "
                "last result, with eviction reachable; hashfile under 1-ns "
                "mtime steps, same-size rewrites and file swaps; "
                "LazyContourList(max_events=2) index/slice/mutate "
                "sequences; read-mutate-read on hdf5, dict, hierarchy, "
                "basin and mapped-basin feature arrays.",
        "note": "cached.MAX_SIZE lowered to 3 (documented module global); "
                "file modifications always change mtime_ns or size",
    },
    "C20": {
        "engine": "E3-enumerate",
        "level": "exploration",
        "technique": "exhaustive enumeration of append compositions x NaN "
                     "placements and production steps on the real writer/"
                     "CLI vs. numpy nan-statistics",
        "text": "Every composition of N (4,6 quick / 3-6 thorough) events "
                "into append calls (one writer or re-opened per call) x all "
                "2^N NaN placements, integer features, single events "
                "(finite, NaN, inf), replace mode; then compress, repack, "
                "condense, export (filtered/unfiltered), join of 2 and 3 "
                "(incl. an all-NaN input), hierarchy child before/after "
                "refresh, basin and mapped-basin access, each on files with "
                "stored and with stripped summaries x 3 NaN variants: "
                "min()/max()/mean() of the feature object equal numpy "
                "nanmin/nanmax/nanmean of its data.",
        "note": "mean compared to 1e-9 relative; N <= 6",
    },
    "C10": {
        "engine": "E2-faults",
        "level": "fault_enumeration",
        "technique": "exhaustive fault-point enumeration (I/O error and "
                     "process kill at every seam crossing) of the real CLI "
                     "task functions in forked children",
        "text": "For compress, repack, condense, join, split and tdms2rtdc "
                "on generated inputs (1 variant quick / 3 thorough), every "
                "one of the K (200-750) crossings of an HDF5 write, group/"
                "attribute creation, object copy, file close, rename or "
                "unlink is (a) made to raise EIO and (b) preceded by "
                "os._exit; thorough adds a second error 1-3 crossings later "
                "and a pre-existing complete output file. After each run: "
                "inputs byte-identical, each requested output absent or "
                "loadable and equal to the fault-free result, everything "
                "else only under *.rtdc~.",
        "note": "process death is modelled by os._exit immediately before "
                "the operation (not power loss); command logs compared by "
                "name; seams installed by monkeypatching in the child",
    },
    "C02": {
        "engine": "E3-enumerate",
        "level": "exploration",
        "technique": "exhaustive enumeration of filter masks x feature "
                     "subsets x source kinds on the real exporter vs. the "
                     "generator's arrays",
        "text": "For dict, hdf5, hierarchy-child (of each), basin-backed and "
                ".tdms sources: all 2^N masks for N<=5/6 and for N=11 all "
                "masks whose selection size is 0,1,9,10,11 (quick) / any "
                "(thorough) with 10-event export chunks, all non-empty "
                "subsets of 7 feature kinds (plus a duplicated name) for a "
                "mask family, filtered and unfiltered, with logs/tables, "
                "both chunk configurations; the exported file is compared "
                "through raw h5py and dclab with source[feat][flatnonzero("
                "mask)], metadata, event count, logs, tables; .tsv parsed "
                "and compared to 1e-10.",
        "note": "N <= 23; tdms fixtures have fewer images/contours than "
                "events, the documented truncation to the shortest feature "
                "is part of the oracle",
    },
    "C07": {
        "engine": "E3-enumerate",
        "level": "model_checking",
        "technique": "exhaustive exploration of the state graph of export "
                     "chains (states = files, transitions = filtered "
                     "exports with basins) on the real exporter/basin code",
        "text": "From a 5-event origin, every chain of nested filter masks "
                "to depth 3 (quick: depth 2 for the variants with stored features / hierarchy child) is exported with basins "
                "(no stored features, mixed stored features, export from a "
                "hierarchy child); in every reached file every feature kind "
                "(scalar, image, mask, contour, trace, user-shaped) read "
                "through the basin equals the origin's data at the composed "
                "map for every access pattern (all ints incl. negative, all "
                "slices, step, boolean, index list, whole array). Plus all "
                "120 maps [m]->[3] via store_basin for file and internal "
                "basins, moved-together, origin-removed, stored-feature "
                "precedence and a chunk-crossing map.",
        "note": "states are not merged (each file is distinct); referrer "
                "and origin live in one scratch directory; remote basins "
                "are covered by C14/C19",
    },
    "C09": {
        "engine": "E3-enumerate",
        "level": "exploration",
        "technique": "exhaustive enumeration of (N, split size) pairs and "
                     "of join input orders x missing-feature subsets x "
                     "acquisition times on the real CLI functions vs. numpy "
                     "slicing/concatenation",
        "text": "split: every (N, size) with N<=10 (quick) / 12 (thorough), "
                "size 1..N+2, plus zero boundary images with both flag "
                "settings: part count, part sizes, every feature of every "
                "part equals the corresponding slice. join: k=2 all orders "
                "x all pairs of missing-feature subsets from a 4-feature "
                "pool containing two adjacent pairs and one feature that is "
                "computable for some inputs only, all 25 pairs of "
                "acquisition times (fractional seconds, date change, ties); "
                "k=3 all orders x 27 subset assignments; thorough k=4,5: "
                "feature set, chronological concatenation, time/frame "
                "offsets, fresh index, continued index_online, retained "
                "logs; split+join round trips.",
        "note": "ties generated with equal run index; index_online excluded "
                "from the round trip (join makes it continuous by design)",
    },
    "C08": {
        "engine": "E3-enumerate",
        "level": "exploration",
        "technique": "exhaustive enumeration of a storage-layout x dataset-"
                     "kind matrix x tasks x options with a structural HDF5 "
                     "comparator",
        "text": "11 generated file variants rotate 11 storage layouts "
                "(contiguous, chunked, chunks larger than the data, gzip, "
                "lzf, zstd-1/5/9, +/- fletcher32) over 12 scalar features, "
                "3 image-like features, 3 traces, 6 contour entries, 15 "
                "logs (fixed/variable-length, empty, >100 chars), 4 "
                "compound tables with attributes, internal + file basin "
                "definitions; compress, repack (4 option combinations) and "
                "condense (4 option combinations) are run on each; every "
                "input dataset/attribute must be in the output with equal "
                "values, the input hash unchanged, a second application "
                "changes no data, condense's scalar features (stored, "
                "basin, computed) equal the input's through dclab; "
                "tdms2rtdc on 3 (quick) / 7 fixtures x compute flag equals "
                "the .tdms source.",
        "note": "zero-length datasets count as absent; variable-length logs "
                "may become fixed-length (text compared); unknown extra "
                "feature names and defective-feature markers are outside "
                "(dclab skips them by documented design)",
    },
    "C14": {
        "engine": "E3-enumerate",
        "level": "exploration",
        "technique": "exhaustive enumeration of basin reference graphs "
                     "(all directed graphs on 2 and 3 files, self-loops "
                     "included) x identifier/location/type assignments vs. "
                     "a reference resolver, under an alarm",
        "text": "All 16 + 512 directed graphs of file basins on 2 and 3 "
                "files (every file opened): offered features and values "
                "equal the reference resolver's (reachability with the "
                "identifier rule), every open/read terminates within 20 s; "
                "for edge/chain/3-cycle (thorough: diamond, 4-chain, "
                "4-cycle) all 4^n assignments of run identifiers {equal, "
                "prefix-extended, unrelated, missing} x unmapped/mapped; "
                "relative and dangling locations; remote definitions via "
                "the in-memory HTTP host (remote -> file chain must stop, "
                "unreachable remote => unavailable) and opening through "
                "RTDC_HTTP with a spy proving that no local path is opened. "
                "The same three situations (remote -> file chain, opening "
                "through the network format, unreachable store) for S3 "
                "basins / RTDC_S3 (boto3 over an in-memory botocore "
                "transport) and DCOR basins / RTDC_DCOR (dcserv API v2 "
                "answered by the in-memory host).",
        "note": "a referrer without run identifier is unconstrained; "
                "graphs on more than 6 files are not enumerated; S3 and "
                "DCOR take part in the remote cases, not in the graph "
                "sweep; basin definitions get distinct names per edge",
    },
    "C11": {
        "engine": "E3-enumerate",
        "level": "exploration",
        "technique": "exhaustive enumeration of metadata keys x value "
                     "representations x setting routes vs. a reference "
                     "normaliser per documented type",
        "text": "All 108 keys of dclab.definitions.config_funcs plus "
                "online_filter pattern keys, filtering range keys and user "
                "keys x 2-12 representations admissible for the key's "
                "documented type (str, bytes, int, float, bool, numpy "
                "scalars/arrays, lists/tuples, numeric and True/False "
                "strings) x routes {item assignment, upper-case key, "
                "section update, Configuration.update, constructor, "
                "assigning the stored value again, configuration file "
                "save/load, store_metadata -> HDF5 -> parse_config, "
                "export, compress}: stored value and type equal the "
                "reference normal form; unknown keys, empty strings and "
                "None are rejected with a warning.",
        "note": "bytes stand for their UTF-8 text; fboolorfloat of the "
                "integers 0/1 is unconstrained; one open finding (2-D "
                "arrays in configuration files)",
    },
    "C16": {
        "engine": "E3-enumerate",
        "level": "exploration",
        "technique": "exhaustive enumeration of all short arrays over a "
                     "6-letter value alphabet x requests x modes on the "
                     "compiled downsampling functions",
        "text": "Every array of length 1..4 (quick) / 5 (thorough) over "
                "{0,1,1,2,NaN,inf} (second coordinate from 3 derived "
                "variants) x every request 0..N+2 x both invalid-handling "
                "modes x {downsample_rand, downsample_grid}, each call "
                "repeated (cached and with the cache cleared); 9 large "
                "generated inputs (uniform, clustered, duplicate-heavy, "
                "NaN/inf, constant; 10^3 and 2*10^4) x 11 request sizes; "
                "get_downsampled_scatter(ret_mask) for 3 filters x requests "
                "x modes x linear/log and the event limit 0..N+2: mask "
                "selects exactly the returned values, count = requested "
                "when enough eligible events exist else all eligible, "
                "invalid handling, reproducibility.",
        "note": "two open findings in downsampling.pyx (request > N; "
                "constant data) that cannot be recompiled here; the "
                "extension is rebuilt from its .c when that changes",
    },
    "C13": {
        "engine": "E3-enumerate",
        "level": "exploration",
        "technique": "exhaustive enumeration of single and paired seeded "
                     "corruptions and of dclab write paths against the "
                     "real integrity checker",
        "text": "Clean files through 10 dclab write paths (writer, export "
                "from dict/hdf5/filtered/hierarchy child, compress, repack, "
                "condense, join, split) from complete metadata must get no "
                "violation; a menu of 45 corruptions (every mandatory key "
                "incl. fluorescence keys, feature lengths +/-1 per feature "
                "kind, event count, ROI x/y, unknown feature, index, "
                "channel/laser/sample counts, resolvable and dangling "
                "external links, non-positive set-up values) applied with "
                "raw h5py: all singles (each also compressed and repacked: "
                "same violations) and all 974 compatible pairs: every "
                "applied corruption is named by a violation and the "
                "checker does not crash.",
        "note": "a corruption counts as reported on a substring match of "
                "the violation message; violations that the writer "
                "rectifies (event count, samples per event, roi size) or "
                "that disappear because links are resolved may vanish in "
                "copies; two open findings",
    },
    "C15": {
        "engine": "E3-enumerate",
        "level": "exploration",
        "technique": "exhaustive enumeration of all vertex sequences on "
                     "small integer grids against an exact integer "
                     "even-odd oracle",
        "text": "Every vertex sequence of length 3, 4 and 5 on the 4x4 "
                "integer grid (1.1 million polygons, degenerate and "
                "self-intersecting ones included; thorough adds 5x5 up to "
                "4 vertices and 3x3 up to 6) against all 81 half-step "
                "lattice points that are not on the boundary (exact "
                "integer arithmetic); every k-th polygon additionally "
                "under all cyclic shifts, reversal, repeated closing "
                "vertex, inversion (complement) and point_in_poly; 6 "
                "polygons with up to 12 vertices x scales 2^k and 10^k "
                "(k=-20..20) x offset with a rational oracle on the actual "
                "doubles; all 15 subsets of a 4-filter pool saved to one "
                ".poly file and re-imported into a cleared registry.",
        "note": "points on (or within rounding distance of) the boundary "
                "are excluded; the compiled point-in-polygon code is "
                "rebuilt from its .c when that changes",
    },
    "C05": {
        "engine": "E3-enumerate",
        "level": "exploration",
        "technique": "exhaustive enumeration of the cell complex of each "
                     "look-up table (nodes, simplices, hull edges) x set-up "
                     "configurations vs. an independent barycentric "
                     "evaluation; all batch subsets and call orders",
        "text": "For the three built-in LUTs and four jittered user LUTs "
                "(tuple, path, registered identifier; area- and volume-"
                "based): every node, the centroid and three edge mid-points "
                "of every Delaunay simplex, a point just inside and just outside "
                "every hull edge and far points, mapped into the data space "
                "of 16 configurations (channel width x flow rate x pixel "
                "size x viscosity): ~4.4*10^6 probes agree with the "
                "reference to 1e-9 and are NaN exactly outside the hull. "
                "Laws: proportionality to viscosity and flow rate, joint "
                "geometric rescaling, all 63 batch subsets of 6 probes "
                "bit-equal, every ordered pair of calls from 6 "
                "configurations, scalar vs per-event temperature, inputs "
                "and tables unmodified.",
        "note": "the continuum is replaced by the LUT cell complex; probes "
                "within 1e-5 (normalised) of the hull are skipped; qhull is "
                "trusted for the triangulation; viscosities of known media "
                "come from dclab's get_viscosity; extrapolate=True outside",
    },
    "C12": {
        "engine": "E3-enumerate",
        "level": "exploration",
        "technique": "exhaustive enumeration of all filter masks with "
                     "poisoned excluded events x analysis entry points "
                     "(differential vs. a dataset of the selected events) "
                     "plus reference estimators",
        "text": "All 2^9 (quick) / 2^10 (thorough) filter masks on a "
                "dataset whose excluded events carry 1e12 / NaN / inf / "
                "negative / 1e300 values: every statistic x 2 features, "
                "Events and %-gated, 3 KDE types x linear/log x (event "
                "positions, explicit positions), contour grids, quantile "
                "levels, downsampled scatter (3 sizes) are bit-equal (or "
                "raise the same exception) to the same call on a dataset "
                "holding only the selected events; filters disabled => all "
                "events; statistics equal their numpy definitions; gauss "
                "and product-kernel estimates equal reference estimators "
                "to 1e-9; the quantile level leaves the fraction q +/- 1/n "
                "below it (n = 20, 200, 2000).",
        "note": "8-10 events with heavy ties; reference estimators only "
                "when >= 4 non-degenerate events are selected; tsv export "
                "is covered by C02",
    },
    "C18": {
        "engine": "E3-enumerate",
        "level": "exploration",
        "technique": "exhaustive enumeration of all small connected "
                     "hole-free masks x placements, all 3^6 spill matrices, "
                     "ladders of discretised ellipsoids",
        "text": "All 24391 8-connected hole-free masks (>= 2 px) fitting a "
                "4x4 box, placed in the interior and against the borders / "
                "a corner of a 9x9 frame: contour lies on the mask and "
                "refill(contour) == mask; moments / inertia ratios are "
                "translation invariant, swap reciprocally under transpose, "
                "the principal ratio is >= 1 and invariant under the 8 "
                "lattice symmetries; volume: cubic in pixel size, sign "
                "flips with orientation, fix_orientation, error vs the "
                "analytic sphere/ellipsoid volume decreasing for r = "
                "5..80; brightness mean/SD/percentiles on masks x 6 "
                "image/background pairs with offsets None/scalar/list/"
                "ndarray/h5 dataset; all 3^6 spill matrices over "
                "{0,0.1,0.3}: correction inverts the spill.",
        "note": "one-pixel masks are outside (get_contour raises by "
                "design); masks larger than 4x4 only via the ellipse "
                "ladder; the tdms event_mask path is not exercised",
    },
}


# Cases added in rounds 35-38 (appended to the level texts above).
ADDED = {
    "C01": "Tables and logs are also read through the dataset interface; "
           "shape, len, whole-array conversion and iteration of every lazy "
           "feature object are compared.",
    "C02": "Sources backed by mapped basins that hold fewer / more events "
           "than the dataset.",
    "C05": "A user table in single precision; five medium/model pairs incl. "
           "water (Kestin 1978), a named medium equals its numeric "
           "viscosity; the shipped isoelasticity lines converted to six "
           "set-ups x pixelation offset keep E(line points)/E(line).",
    "C06": "One 200003-event dataset whose temporary feature is replaced 21 "
           "times by an array differing in one event; features read "
           "explicitly by the history are looked at first in every state.",
    "C07": "len/shape of basin feature objects; exports through a hierarchy "
           "child at every level; child of a (mapped / unmapped) referrer "
           "with all child masks, filtered and unfiltered; an export chain "
           "70001 -> 35001 -> 351 -> 176 -> 36 events; compressed and "
           "repacked referrers.",
    "C08": "Two pre-allocated layouts (fill value, only the first chunk "
           "written).",
    "C09": "The two switches for empty boundary images set independently.",
    "C10": "join with its last input as output path (as is, stem, via ..).",
    "C11": "Configuration(files=[a, b(, c)]): all 16x16 two-file and 27 "
           "three-file plans over a 4-key pool.",
    "C12": "4000-event inputs per estimator; every subset of five explicit "
           "positions x three containers; contour lines at the quantile "
           "level separate the events.",
    "C13": "Files with several fluorescence channels (also with a gap) and "
           "every wrong channel/laser count 0..4; a 150003-event file with "
           "single index entries off by one; thorough: 8842 corruption "
           "triples.",
    "C14": "One remote edge (http/s3/dcor) x 4x4 run-identifier "
           "assignments x unmapped/mapped, every feature asked for twice.",
    "C16": "All ordered pairs of 10 spellings of the two switches "
           "(left out / keyword / positional) x 2 sizes x {grid, rand}.",
    "C18": "The .tdms mask column (four fixtures, all ordered pairs of "
           "events and the kept list against the filled contour); volume "
           "laws on every small mask against the truncated-cone sum.",
    "C20": "Two files written alternately in one process; production steps "
           "on files without summaries re-chunked to two events per chunk.",
}
for _pid, _txt in ADDED.items():
    CHECKS[_pid]["text"] = CHECKS[_pid]["text"].rstrip() + " Later additions: " + _txt
