"""Registry of built checks (MANIFEST.json is generated from this)."""

ENGINES = [
    {"name": "E1-explore", "path": "vf/explore.py",
     "serves_properties": ["C03"],
     "kind_free_text": "explicit-state breadth-first exploration of operation "
     "histories on the real dclab objects; successor = replay of history+op "
     "on a fresh SUT; states merged by a canonical form of the "
     "implementation state; bounds on depth and deviations"},
]

NOTES = ("All checks run /repo's working tree directly (editable install; "
         "compiled extensions are rebuilt from their generated .c when that "
         "changes; Cython is not available so .pyx edits cannot be compiled). "
         "Exit codes: 0 held, 1 violation, 2 harness error.")

NOT_CLAIMED = {}

CHECKS = {
    "C03": {
        "engine": "E1-explore",
        "level": "model_checking",
        "technique": "explicit-state BFS over filter edit/apply histories on "
                     "the real Filter object vs. a stateless reference "
                     "evaluation",
        "text": "Every history of filter edits (ranges incl. reversed/equal "
                "bounds and removal, two polygon filters incl. inversion and "
                "vertex moves, invalid toggle, enable toggle, limits, manual "
                "exclusions, reset) with and without intermediate "
                "apply_filter up to depth 4 (quick) / 6 (thorough) and "
                "deviation bound 1-3 is executed on a real 8-event dataset; "
                "box, polygon, invalid and combined selections are compared "
                "with a stateless specification in every applied state.",
        "note": "alphabet: 8 events with NaN/inf/ties, 2 ranged features, 2 "
                "polygons with off-boundary finite query points; state "
                "merging uses Filter's private caches only for deduplication "
                "(falls back to history=state if they disappear)",
    },
}
